--------------------------- MODULE MappingAlgebra ---------------------------
(* C09 (L2): the mapping bookkeeping of WORKFLOWS OF ANY SHAPE built from
       SetModelPass | placement pass (Greedy / Trivial / Static) | layout pass (Sabre / PAM) |
       routing pass (Sabre / PAM) | ApplyPlacement
   on ONE PassData, in any order and any number of times (a second routing after a first one, re-routing
   after the machine changed, Route-Apply-Layout-Route-Apply as the SeqPAM workflow of compile() does, ...),
   as a state machine, next to the ground truth it is supposed to describe.

   Code side (what the passes write, formula by formula):
     placement         PassData.placement        SetModelPass resets it to 0..w-1 (w = current circuit width);
                                                 a placement pass sets it; a layout pass permutes it with
                                                 _apply_perm(pi, placement): placement[q] <- placement[pi[q]];
                                                 ApplyPlacement resets it to 0..N-1
     im, fm            PassData.initial_mapping / final_mapping (identity on a fresh PassData; their length is the
                       number of LOGICAL qudits for ever, their values are wires of the current circuit);
                                                 routing: fm <- [pi[x] for x in fm]  -- composed onto the FINAL
                                                 mapping: a routing pass that starts when fm # im (any routing but
                                                 the first) must not forget the earlier movements;
                                                 ApplyPlacement: placement[.] of both
     pi                the router's position -> wire list over the w wires of the circuit being routed;
                       _apply_swap((a, b), pi) exchanges the two ENTRIES whose VALUES are a and b;
                       _apply_perm(perm, pi) (PAM routing, pre / post permutation of a block) permutes the entries AT
                       THE POSITIONS perm
     lead              leading_swaps, the swaps since the last executed gate, undone (on pi and on the circuit) by the
                       local-minimum escape
     w, np             width of the circuit (logical qudits at first, the machine's after ApplyPlacement) and size of
                       the machine set last (SetModelPass refuses a machine smaller than the circuit)
   Ground truth (what the circuit does), independent of the formulas above:
     tok0[x], tok[x]   the token that enters / leaves the circuit built so far on wire x: logical qudit 0..nl-1, or a
                       blank (negative, unique) on a wire ApplyPlacement added.
                       A SwapGate appended on wires (a, b) exchanges tok[a] and tok[b]; popping it exchanges them
                       back; ApplyPlacement renames wire x to physical qudit placement[x]; routing an already routed
                       circuit again re-places its old swaps like any other gate, so the circuit after routing is
                       (net permutation of the NEW swaps) o (circuit before): the new swaps act on tok.
     tokS              tok at the start of the current routing pass (what pi is relative to)
   Flags that depend on the SHAPE of the workflow only (which passes ran, on machines of which size):
     legal             a routing pass has run since the placement / the machine last changed
     applied           wire x of the circuit IS physical qudit x (w = np and placement = identity)
   The circuit is one the property speaks about ("after placement, layout and routing and applying the placement")
   exactly when legal /\ applied: those are the points where the harness hands the real circuit to RoutingAbs (L1).

   Invariants: the published mappings are the token positions (tok0[im[l]] = l and tok[fm[l]] = l), during
   routing tok[pi[x]] = tokS[x], mappings and placement are injective and in range, tokens are conserved,
   applied means what it says.

   The actions take their parameters explicitly so that MappingTrace.tla can replay recorded runs of the real
   passes through them and MappingGen.tla can generate workflows from them. *)
EXTENDS Naturals, Integers, Sequences, FiniteSets, TLC

CONSTANTS NL,          \* logical qudits; the state carries them as nl so that MappingTrace.tla can replay runs of any size
          Sizes,       \* machine sizes SetModel may choose from
          GraphMode,   \* "all": every connected graph on n vertices; "rep": a representative set; "mixed": all up to 4 vertices
          MaxSwaps,    \* bound on the number of swaps one routing pass emits
          MaxSteps     \* bound on the number of passes in a workflow

VARIABLES nl, w, np, phase, edges, placement, im, fm, pi, lead, nsw, tok0, tok, tokS, legal, applied, steps
vars == <<nl, w, np, phase, edges, placement, im, fm, pi, lead, nsw, tok0, tok, tokS, legal, applied, steps>>

Range(s) == {s[i] : i \in 1..Len(s)}
Id(n) == [i \in 1..n |-> i - 1]
Injective(f) == \A i, j \in 1..Len(f) : i # j => f[i] # f[j]
IndexOf(s, v) == CHOOSE i \in 1..Len(s) : s[i] = v

Pairs(n) == {{a, b} : a, b \in 0..n - 1} \ {{a} : a \in 0..n - 1}
RECURSIVE Reach(_, _, _)
Reach(E, S, R) == LET R2 == R \cup {q \in S : \E p \in R : {p, q} \in E} IN IF R2 = R THEN R ELSE Reach(E, S, R2)
ConnectedIn(E, S) == S = {} \/ Reach(E, S, {CHOOSE x \in S : TRUE}) = S

Line(n) == {{a, a + 1} : a \in 0..n - 2}
Ring(n) == Line(n) \cup ({{0, n - 1}} \ {{0}})
Star(n) == {{0, a} : a \in 1..n - 1}
GraphsOf(n) ==
  IF n = 1 THEN {{}}
  ELSE IF GraphMode = "all" \/ (GraphMode = "mixed" /\ n <= 4) THEN {E \in SUBSET Pairs(n) : ConnectedIn(E, 0..n - 1)}
  ELSE {Line(n), Ring(n), Star(n), Pairs(n),
        Line(n) \cup ({{1, n - 1}} \ {{1}}),                       \* a tail on a cycle
        {{a, (a * 2 + 1) % n} : a \in 0..n - 1} \cup Line(n)} \cap {E \in SUBSET Pairs(n) : ConnectedIn(E, 0..n - 1)}
GraphTable == [n \in Sizes |-> GraphsOf(n)]          \* a constant: TLC evaluates it once
Graphs(n) == GraphTable[n]

\* data.connectivity = model.coupling_graph.get_subgraph(placement): positions i, j adjacent iff their physical qudits are
SubEdge(a, b) == a # b /\ {placement[a + 1], placement[b + 1]} \in edges
PlacedConnected == ConnectedIn(edges, Range(placement))

Exch(f, a, b) == [x \in DOMAIN f |-> IF x = a THEN f[b] ELSE IF x = b THEN f[a] ELSE f[x]]

-----------------------------------------------------------------------------
InitFor(n) ==
  /\ nl = n /\ w = n /\ np = 0
  /\ phase = "start" /\ edges = {} /\ placement = Id(n)
  /\ im = Id(n) /\ fm = Id(n) /\ pi = Id(n) /\ lead = <<>> /\ nsw = 0
  /\ tok0 = [x \in 0..n - 1 |-> x] /\ tok = [x \in 0..n - 1 |-> x] /\ tokS = [x \in 0..n - 1 |-> x]
  /\ legal = FALSE /\ applied = FALSE /\ steps = 0
Init == InitFor(NL)

\* the two shape-only flags after a pass of the given kind (also used by MappingTrace when the code and the model disagree)
LegalAfter(kind) == IF kind = "route" THEN TRUE ELSE IF kind = "apply" THEN legal ELSE FALSE
AppliedAfter(kind, flavour, n) ==
  CASE kind = "setmodel" -> applied /\ n = w          \* the placement is reset to 0..w-1: still "wire = physical qudit" iff same size
    [] kind = "place" -> flavour = "trivial" /\ w = np   \* only the trivial placement is the identity by definition
    [] kind = "layout" -> FALSE
    [] kind = "route" -> applied
    [] kind = "apply" -> TRUE

\* SetModelPass.run: refuses a machine smaller than the circuit; data.model = model; data.placement = list(range(circuit.num_qudits))
SetModel(n, E) ==
  /\ phase \in {"start", "ready"} /\ n >= w
  /\ np' = n /\ edges' = E /\ placement' = Id(w) /\ phase' = "ready"
  /\ legal' = LegalAfter("setmodel") /\ applied' = AppliedAfter("setmodel", "", n) /\ steps' = steps + 1
  /\ UNCHANGED <<nl, w, im, fm, pi, lead, nsw, tok0, tok, tokS>>

\* a placement pass: w distinct physical qudits.  Trivial: 0..w-1 (it raises afterwards when they are not connected);
\* Greedy: a connected set, published sorted; Static: any assignment (or the previous one when it finds none)
PlaceOK(kind, P) ==
  /\ Len(P) = w /\ Range(P) \subseteq 0..np - 1 /\ Injective(P)
  /\ CASE kind = "trivial" -> P = Id(w)
       [] kind = "greedy" -> (\A i \in 1..w - 1 : P[i] < P[i + 1]) /\ ConnectedIn(edges, Range(P))
       [] OTHER -> TRUE
Place(kind, P) ==
  /\ phase = "ready" /\ PlaceOK(kind, P)
  /\ placement' = P
  /\ legal' = LegalAfter("place") /\ applied' = AppliedAfter("place", kind, np) /\ steps' = steps + 1
  /\ UNCHANGED <<nl, w, np, phase, edges, im, fm, pi, lead, nsw, tok0, tok, tokS>>

\* GeneralizedSabreLayoutPass.run / PAMLayoutPass.run: refuse disconnected qudits; self._apply_perm(pi, data.placement)
\* for whatever permutation the forward/backward passes found; the circuit and both mappings are left alone
LayoutOK(perm) == Len(perm) = w /\ Range(perm) = 0..w - 1 /\ Len(placement) = w
Layout(kind, perm) ==
  /\ phase = "ready" /\ PlacedConnected /\ LayoutOK(perm)
  /\ placement' = [q \in 1..w |-> placement[perm[q] + 1]]
  /\ legal' = LegalAfter("layout") /\ applied' = AppliedAfter("layout", kind, np) /\ steps' = steps + 1
  /\ UNCHANGED <<nl, w, np, phase, edges, im, fm, pi, lead, nsw, tok0, tok, tokS>>

\* GeneralizedSabreRoutingPass.run / PAMRoutingPass.run: refuse disconnected qudits; pi = [i for i in range(circuit.num_qudits)]
RouteStart(kind) ==
  /\ phase = "ready" /\ PlacedConnected
  /\ pi' = Id(w) /\ lead' = <<>> /\ nsw' = 0 /\ tokS' = tok /\ phase' = "routing"
  /\ UNCHANGED <<nl, w, np, edges, placement, im, fm, tok0, tok, legal, applied, steps>>

ApplySwapToPi(p, a, b) ==       \* _apply_swap: l1, l2 = pi.index(a), pi.index(b); pi[l1], pi[l2] = pi[l2], pi[l1]
  LET l1 == IndexOf(p, a) l2 == IndexOf(p, b) IN [p EXCEPT ![l1] = p[l2], ![l2] = p[l1]]

\* best swap / uphill swap: applied to pi and appended to the mapped circuit; `record`: it joins leading_swaps
RouteSwap(a, b, record) ==
  /\ phase = "routing" /\ nsw < MaxSwaps
  /\ SubEdge(a, b)
  /\ pi' = ApplySwapToPi(pi, a, b)
  /\ tok' = Exch(tok, a, b)
  /\ lead' = IF record THEN Append(lead, <<a, b>>) ELSE lead
  /\ nsw' = nsw + 1
  /\ UNCHANGED <<nl, w, np, phase, edges, placement, im, fm, tok0, tokS, legal, applied, steps>>

\* PAMRoutingPass executed a two-qudit block in a variant that exchanges its two wires before or after the block
\* (pre / post permutation): _apply_perm((y, x), pi) exchanges the ENTRIES AT POSITIONS x and y of pi (x, y: qudits of the
\* circuit being routed), and the variant placed in the mapped circuit carries that swap itself, on wires pi[x], pi[y] --
\* which are adjacent, or the block would not have been executed.  A gate was executed: leading_swaps = []
RoutePerm(x, y) ==
  /\ phase = "routing" /\ x # y /\ x \in 0..w - 1 /\ y \in 0..w - 1
  /\ SubEdge(pi[x + 1], pi[y + 1])
  /\ pi' = [pi EXCEPT ![x + 1] = pi[y + 1], ![y + 1] = pi[x + 1]]
  /\ tok' = Exch(tok, pi[x + 1], pi[y + 1])
  /\ lead' = <<>>
  /\ UNCHANGED <<nl, w, np, phase, edges, placement, im, fm, nsw, tok0, tokS, legal, applied, steps>>

\* a gate was executed: leading_swaps = []
ExecGate ==
  /\ phase = "routing" /\ lead # <<>>
  /\ lead' = <<>>
  /\ UNCHANGED <<nl, w, np, phase, edges, placement, im, fm, pi, nsw, tok0, tok, tokS, legal, applied, steps>>

\* local minimum: for swap in reversed(leading_swaps): _apply_swap(swap, pi); mapped_circuit.pop(rear of swap[0])
RECURSIVE UndoPi(_, _)
UndoPi(p, sw) == IF sw = <<>> THEN p ELSE UndoPi(ApplySwapToPi(p, sw[Len(sw)][1], sw[Len(sw)][2]), SubSeq(sw, 1, Len(sw) - 1))
RECURSIVE UndoTok(_, _)
UndoTok(t, sw) == IF sw = <<>> THEN t ELSE UndoTok(Exch(t, sw[Len(sw)][1], sw[Len(sw)][2]), SubSeq(sw, 1, Len(sw) - 1))
Backtrack ==
  /\ phase = "routing" /\ lead # <<>>
  /\ pi' = UndoPi(pi, lead) /\ tok' = UndoTok(tok, lead)
  /\ nsw' = nsw - Len(lead) /\ lead' = <<>>
  /\ UNCHANGED <<nl, w, np, phase, edges, placement, im, fm, tok0, tokS, legal, applied, steps>>

\* data.final_mapping = [pi[x] for x in data.final_mapping]   (pi, lead, nsw, tokS are locals of the pass: reset)
RouteEndOK == Range(fm) \subseteq 0..Len(pi) - 1
RouteEnd ==
  /\ phase = "routing" /\ RouteEndOK
  /\ fm' = [x \in 1..nl |-> pi[fm[x] + 1]]
  /\ phase' = "ready" /\ pi' = Id(w) /\ lead' = <<>> /\ nsw' = 0 /\ tokS' = tok
  /\ legal' = LegalAfter("route") /\ applied' = AppliedAfter("route", "", np) /\ steps' = steps + 1
  /\ UNCHANGED <<nl, w, np, edges, placement, im, tok0, tok>>

\* ApplyPlacement.run: physical_circuit.append_circuit(circuit, placement); mappings through placement; placement = 0..N-1.
\* A physical qudit no wire is placed on gets a blank token of its own (the same one in tok0 and tok).
MaxS(S) == CHOOSE x \in S : \A y \in S : y <= x
BlanksUsed == MaxS({0} \cup {0 - tok[x] : x \in DOMAIN tok})          \* blanks are -1, -2, ...: the next unused ones are taken
Blank(p) == 0 - (BlanksUsed + Cardinality({q \in 0..p : q \notin Range(placement)}))
OnPhysical(t) == [p \in 0..np - 1 |-> IF p \in Range(placement) THEN t[IndexOf(placement, p) - 1] ELSE Blank(p)]
ApplyOK == Range(im) \cup Range(fm) \subseteq 0..Len(placement) - 1 /\ Len(placement) = w /\ Injective(placement)
           /\ Range(placement) \subseteq 0..np - 1
Apply ==
  /\ phase = "ready" /\ ApplyOK
  /\ im' = [l \in 1..nl |-> placement[im[l] + 1]]
  /\ fm' = [l \in 1..nl |-> placement[fm[l] + 1]]
  /\ tok0' = OnPhysical(tok0) /\ tok' = OnPhysical(tok) /\ tokS' = OnPhysical(tok)
  /\ w' = np /\ placement' = Id(np) /\ pi' = Id(np)
  /\ legal' = LegalAfter("apply") /\ applied' = AppliedAfter("apply", "", np) /\ steps' = steps + 1
  /\ UNCHANGED <<nl, np, phase, edges, lead, nsw>>

-----------------------------------------------------------------------------
PlaceKinds == {"greedy", "trivial", "static"}
More == steps < MaxSteps
DoSetModel == More /\ \E n \in Sizes : \E E \in Graphs(n) : SetModel(n, E)
DoPlace == More /\ \E kind \in PlaceKinds : \E P \in [1..w -> 0..np - 1] : Place(kind, P)
DoLayout == More /\ \E perm \in [1..w -> 0..w - 1] : Layout("sabre", perm)       \* the flavour leaves no trace in the state
DoRouteStart == More /\ RouteStart("sabre")
DoRouteSwap == \E a, b \in 0..w - 1 : \E record \in BOOLEAN : a < b /\ RouteSwap(a, b, record)
DoRoutePerm == \E x, y \in 0..w - 1 : x < y /\ RoutePerm(x, y)
DoExecGate == ExecGate
DoBacktrack == Backtrack
DoRouteEnd == RouteEnd
DoApply == More /\ Apply

Next == \/ DoSetModel \/ DoPlace \/ DoLayout \/ DoRouteStart \/ DoRouteSwap \/ DoRoutePerm \/ DoExecGate
        \/ DoBacktrack \/ DoRouteEnd \/ DoApply
Spec == Init /\ [][Next]_vars
\* exhaustive runs hide the pass counter: with MaxSteps out of reach the search is over workflows of EVERY length
NoSteps == <<nl, w, np, phase, edges, placement, im, fm, pi, lead, nsw, tok0, tok, tokS, legal, applied>>

-----------------------------------------------------------------------------
Wires == 0..w - 1

\* published mappings = token positions
PublishedAreTokens ==
  phase # "routing" => \A l \in 1..nl : /\ im[l] \in Wires /\ fm[l] \in Wires
                                        /\ tok0[im[l]] = l - 1 /\ tok[fm[l]] = l - 1
\* inside the router: the content of position x at the start of this routing pass now sits on wire pi[x]
PiTracksTokens == phase = "routing" => \A x \in 1..w : tok[pi[x]] = tokS[x - 1]
MappingsInjective == Injective(im) /\ Injective(fm) /\ Injective(placement) /\ Injective(pi)
MappingsInRange ==
  /\ Len(im) = nl /\ Len(fm) = nl /\ Range(im) \subseteq Wires /\ Range(fm) \subseteq Wires
  /\ Len(pi) = w /\ Range(pi) \subseteq Wires /\ Len(placement) = w
  /\ phase # "start" => Range(placement) \subseteq 0..np - 1
PlacementConnected == (phase = "routing" \/ legal) => PlacedConnected
AppliedMeans == applied => w = np /\ placement = Id(np)
\* every token is somewhere exactly once; nothing else is anywhere twice
TokensConserved == /\ \A l \in 0..nl - 1 : Cardinality({x \in DOMAIN tok : tok[x] = l}) = 1
                   /\ \A x, y \in DOMAIN tok : x # y => tok[x] # tok[y]
                   /\ DOMAIN tok = Wires /\ DOMAIN tok0 = Wires
\* the mechanism the second routing pass depends on: it starts from a final mapping that is not the initial one.
\* (Reachability of such states is shown by MappingGen.tla; with fm <- [pi[x] for x in im] instead, PublishedAreTokens fails there.)
SecondRoutingMatters == phase = "routing" /\ fm # im
=============================================================================
