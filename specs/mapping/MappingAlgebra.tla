--------------------------- MODULE MappingAlgebra ---------------------------
(* C09 (L2): the mapping bookkeeping of the workflow
       SetModelPass -> placement pass -> GeneralizedSabreLayoutPass -> GeneralizedSabreRoutingPass -> ApplyPlacement
   as a state machine, next to the ground truth it is supposed to describe.

   Code side (what the passes write, formula by formula):
     placement         PassData.placement        SetModelPass resets it to 0..n-1; the placement pass sets it;
                                                 the layout pass permutes it with _apply_perm(pi, placement):
                                                 placement[q] <- placement[pi[q]]; ApplyPlacement resets it to 0..N-1
     im, fm            PassData.initial_mapping / final_mapping (identity on a fresh PassData);
                                                 routing: fm <- [pi[x] for x in fm]; ApplyPlacement: placement[.] of both
     pi                the router's logical -> position list; _apply_swap((a, b), pi) exchanges the two ENTRIES whose
                       VALUES are a and b (pi.index(a), pi.index(b))
     lead              leading_swaps, the swaps since the last executed gate, undone (on pi and on the circuit) by the
                       local-minimum escape
   Ground truth (what the circuit does), independent of the formulas above:
     tok0[w], tok[w]   the logical qudit ("token") that enters / leaves the circuit built so far on wire w (-1: none).
                       A SwapGate appended on wires (a, b) exchanges tok[a] and tok[b]; popping it exchanges them
                       back; ApplyPlacement renames wire w to physical qudit placement[w].

   Invariants: the published mappings are the token positions (tok0[im[l]] = l and tok[fm[l]] = l), during
   routing tok[pi[x]] = x, mappings and placement are injective and in range, the placement is connected.

   The actions take their parameters explicitly so that MappingTrace.tla can replay recorded runs of the real
   passes through them. *)
EXTENDS Naturals, Integers, Sequences, FiniteSets, TLC

CONSTANTS NL,          \* logical qudits (circuit width before ApplyPlacement); the state carries them as nl, np so that
                       \* MappingTrace.tla can replay runs of any size
          NP,          \* physical qudits of the machine
          GraphMode,   \* "all": every connected graph on NP vertices; "rep": a representative set
          MaxSwaps     \* bound on the number of swaps routing emits

VARIABLES nl, np, phase, edges, placement, im, fm, pi, lead, nsw, tok0, tok
vars == <<nl, np, phase, edges, placement, im, fm, pi, lead, nsw, tok0, tok>>

Range(s) == {s[i] : i \in 1..Len(s)}
Id(n) == [i \in 1..n |-> i - 1]
Injective(f) == \A i, j \in 1..Len(f) : i # j => f[i] # f[j]
IndexOf(s, v) == CHOOSE i \in 1..Len(s) : s[i] = v

Pairs(n) == {{a, b} : a, b \in 0..n - 1} \ {{a} : a \in 0..n - 1}
RECURSIVE Reach(_, _, _)
Reach(E, S, R) == LET R2 == R \cup {q \in S : \E p \in R : {p, q} \in E} IN IF R2 = R THEN R ELSE Reach(E, S, R2)
ConnectedIn(E, S) == S = {} \/ Reach(E, S, {CHOOSE x \in S : TRUE}) = S

Line(n) == {{a, a + 1} : a \in 0..n - 2}
Ring(n) == Line(n) \cup {{0, n - 1}}
Star(n) == {{0, a} : a \in 1..n - 1}
Graphs ==
  IF GraphMode = "all" THEN {E \in SUBSET Pairs(NP) : ConnectedIn(E, 0..NP - 1)}
  ELSE {Line(NP), Ring(NP), Star(NP), Pairs(NP),
        Line(NP) \cup {{1, NP - 1}},                       \* a tail on a cycle
        {{a, (a * 2 + 1) % NP} : a \in 0..NP - 1} \cup Line(NP)} \cap {E \in SUBSET Pairs(NP) : ConnectedIn(E, 0..NP - 1)}

\* data.connectivity = model.coupling_graph.get_subgraph(placement): positions i, j adjacent iff their physical qudits are
SubEdge(a, b) == a # b /\ {placement[a + 1], placement[b + 1]} \in edges

Exch(f, a, b) == [w \in DOMAIN f |-> IF w = a THEN f[b] ELSE IF w = b THEN f[a] ELSE f[w]]

-----------------------------------------------------------------------------
InitFor(n, m) ==
  /\ nl = n /\ np = m
  /\ phase = "start" /\ edges = {} /\ placement = Id(n)
  /\ im = Id(n) /\ fm = Id(n) /\ pi = Id(n) /\ lead = <<>> /\ nsw = 0
  /\ tok0 = [w \in 0..n - 1 |-> w] /\ tok = [w \in 0..n - 1 |-> w]
Init == InitFor(NL, NP)

\* SetModelPass.run: data.model = model; data.placement = list(range(circuit.num_qudits))
SetModel(E) ==
  /\ phase = "start"
  /\ edges' = E /\ placement' = Id(nl) /\ phase' = "model"
  /\ UNCHANGED <<nl, np, im, fm, pi, lead, nsw, tok0, tok>>

\* a placement pass (Greedy: sorted; Trivial: 0..n-1; Static: any order): n distinct physical qudits, connected
Place(P) ==
  /\ phase = "model"
  /\ Len(P) = nl /\ Range(P) \subseteq 0..np - 1 /\ Injective(P) /\ ConnectedIn(edges, Range(P))
  /\ placement' = P /\ phase' = "placed"
  /\ UNCHANGED <<nl, np, edges, im, fm, pi, lead, nsw, tok0, tok>>

\* GeneralizedSabreLayoutPass.run: self._apply_perm(pi, data.placement) for whatever permutation the passes found
Layout(perm) ==
  /\ phase = "placed"
  /\ Len(perm) = nl /\ Range(perm) = 0..nl - 1
  /\ placement' = [q \in 1..nl |-> placement[perm[q] + 1]]
  /\ phase' = "laid"
  /\ UNCHANGED <<nl, np, edges, im, fm, pi, lead, nsw, tok0, tok>>

\* GeneralizedSabreRoutingPass.run: pi = [i for i in range(circuit.num_qudits)]
RouteStart ==
  /\ phase \in {"placed", "laid"}
  /\ pi' = Id(nl) /\ lead' = <<>> /\ phase' = "routing"
  /\ UNCHANGED <<nl, np, edges, placement, im, fm, nsw, tok0, tok>>

ApplySwapToPi(p, a, b) ==       \* _apply_swap: l1, l2 = pi.index(a), pi.index(b); pi[l1], pi[l2] = pi[l2], pi[l1]
  LET l1 == IndexOf(p, a) l2 == IndexOf(p, b) IN [p EXCEPT ![l1] = p[l2], ![l2] = p[l1]]

\* best swap / uphill swap: applied to pi and appended to the mapped circuit; `record`: it joins leading_swaps
RouteSwap(a, b, record) ==
  /\ phase = "routing" /\ nsw < MaxSwaps
  /\ SubEdge(a, b)
  /\ pi' = ApplySwapToPi(pi, a, b)
  /\ tok' = Exch(tok, a, b)
  /\ lead' = IF record THEN Append(lead, <<a, b>>) ELSE lead
  /\ nsw' = nsw + 1
  /\ UNCHANGED <<nl, np, phase, edges, placement, im, fm, tok0>>

\* a gate was executed: leading_swaps = []
ExecGate ==
  /\ phase = "routing" /\ lead # <<>>
  /\ lead' = <<>>
  /\ UNCHANGED <<nl, np, phase, edges, placement, im, fm, pi, nsw, tok0, tok>>

\* local minimum: for swap in reversed(leading_swaps): _apply_swap(swap, pi); mapped_circuit.pop(rear of swap[0])
RECURSIVE UndoPi(_, _)
UndoPi(p, sw) == IF sw = <<>> THEN p ELSE UndoPi(ApplySwapToPi(p, sw[Len(sw)][1], sw[Len(sw)][2]), SubSeq(sw, 1, Len(sw) - 1))
RECURSIVE UndoTok(_, _)
UndoTok(t, sw) == IF sw = <<>> THEN t ELSE UndoTok(Exch(t, sw[Len(sw)][1], sw[Len(sw)][2]), SubSeq(sw, 1, Len(sw) - 1))
Backtrack ==
  /\ phase = "routing" /\ lead # <<>>
  /\ pi' = UndoPi(pi, lead) /\ tok' = UndoTok(tok, lead)
  /\ nsw' = nsw - Len(lead) /\ lead' = <<>>
  /\ UNCHANGED <<nl, np, phase, edges, placement, im, fm, tok0>>

\* data.final_mapping = [pi[x] for x in data.final_mapping]
RouteEnd ==
  /\ phase = "routing"
  /\ fm' = [x \in 1..nl |-> pi[fm[x] + 1]]
  /\ phase' = "routed"
  /\ UNCHANGED <<nl, np, edges, placement, im, pi, lead, nsw, tok0, tok>>

\* ApplyPlacement.run: physical_circuit.append_circuit(circuit, placement); mappings through placement; placement = 0..N-1
OnPhysical(t) == [p \in 0..np - 1 |-> IF p \in Range(placement) THEN t[IndexOf(placement, p) - 1] ELSE -1]
Apply ==
  /\ phase = "routed"
  /\ im' = [l \in 1..nl |-> placement[im[l] + 1]]
  /\ fm' = [l \in 1..nl |-> placement[fm[l] + 1]]
  /\ tok0' = OnPhysical(tok0) /\ tok' = OnPhysical(tok)
  /\ placement' = Id(np)
  /\ phase' = "applied"
  /\ UNCHANGED <<nl, np, edges, pi, lead, nsw>>

-----------------------------------------------------------------------------
DoSetModel == \E E \in Graphs : SetModel(E)
DoPlace == \E P \in [1..NL -> 0..NP - 1] : Place(P)
DoLayout == \E perm \in [1..NL -> 0..NL - 1] : Layout(perm)
DoRouteStart == RouteStart
DoRouteSwap == \E a, b \in 0..NL - 1 : \E record \in BOOLEAN : a < b /\ RouteSwap(a, b, record)
DoExecGate == ExecGate
DoBacktrack == Backtrack
DoRouteEnd == RouteEnd
DoApply == Apply

Next == \/ DoSetModel \/ DoPlace \/ DoLayout \/ DoRouteStart \/ DoRouteSwap \/ DoExecGate
        \/ DoBacktrack \/ DoRouteEnd \/ DoApply
Spec == Init /\ [][Next]_vars

-----------------------------------------------------------------------------
Wires == IF phase = "applied" THEN 0..np - 1 ELSE 0..nl - 1

\* published mappings = token positions
PublishedAreTokens ==
  phase # "routing" => \A l \in 1..nl : /\ im[l] \in Wires /\ fm[l] \in Wires
                                        /\ tok0[im[l]] = l - 1 /\ tok[fm[l]] = l - 1
\* inside the router: the content of position x at the start of routing now sits on wire pi[x]
PiTracksTokens == phase = "routing" => \A x \in 1..nl : tok[pi[x]] = tok0[x - 1]
MappingsInjective == Injective(im) /\ Injective(fm) /\ Injective(placement) /\ Injective(pi)
MappingsInRange ==
  /\ Range(im) \subseteq Wires /\ Range(fm) \subseteq Wires /\ Range(pi) \subseteq 0..nl - 1
  /\ Range(placement) \subseteq 0..np - 1
  /\ Len(placement) = IF phase = "applied" THEN np ELSE nl
PlacementConnected == phase \in {"placed", "laid", "routing", "routed"} => ConnectedIn(edges, Range(placement))
\* every token is somewhere exactly once
TokensConserved == \A l \in 0..nl - 1 : Cardinality({w \in DOMAIN tok : tok[w] = l}) = 1
=============================================================================
