---------------------------- MODULE CircuitEnum ----------------------------
(* Enumerates every small circuit once (C09 inputs): operations are gates of the given arities on ordered
   locations and barriers on qudit sets, appended the way Circuit.append places them; a sequence is kept only
   if it is in iteration order (cycle, then first qudit of the location), which is a canonical form of the
   circuit.  Every reachable state is one circuit; it is printed as <<"CIRC", NQ, ops>> with
   ops[i] = <<is barrier (0/1), location>>. *)
EXTENDS Naturals, Integers, Sequences, FiniteSets, TLC

CONSTANTS NQ, MaxOps, GateArities, Barriers   \* Barriers: TRUE = barriers on every qudit set of size >= 2

VARIABLES circ
Q == 0..NQ - 1
Range(s) == {s[i] : i \in 1..Len(s)}
MaxS(S) == CHOOSE x \in S : \A y \in S : y <= x
MinS(S) == CHOOSE x \in S : \A y \in S : x <= y
RECURSIVE SortedSeq(_)
SortedSeq(S) == IF S = {} THEN <<>> ELSE LET m == MinS(S) IN <<m>> \o SortedSeq(S \ {m})

OpsOn(q) == {i \in 1..Len(circ) : q \in Range(circ[i].loc)}
LastCyc(q) == IF OpsOn(q) = {} THEN -1 ELSE MaxS({circ[i].cyc : i \in OpsOn(q)})

\* ordered locations: a two-qudit gate in both directions (control/target matter to the router's bookkeeping),
\* three-qudit gates ascending and with the last two exchanged
GateLocs == {<<a>> : a \in Q} \cup {<<a, b>> : a, b \in Q} \cup {<<a, b, c>> : a, b, c \in Q}
OKLoc(loc) == /\ Len(loc) \in GateArities
              /\ \A i, j \in 1..Len(loc) : i # j => loc[i] # loc[j]
              /\ (Len(loc) = 3 => loc[1] < loc[2] /\ loc[1] < loc[3])
BarrierLocs == IF Barriers THEN {SortedSeq(S) : S \in {T \in SUBSET Q : Cardinality(T) >= 2}} ELSE {}

InOrder(o) == IF Len(circ) = 0 THEN TRUE
              ELSE LET p == circ[Len(circ)] IN IF o.cyc = p.cyc THEN o.loc[1] > p.loc[1] ELSE o.cyc > p.cyc
Add(bar, loc) ==
  LET o == [bar |-> bar, loc |-> loc, cyc |-> MaxS({LastCyc(q) : q \in Range(loc)}) + 1]
  IN /\ Len(circ) < MaxOps /\ InOrder(o)
     /\ circ' = Append(circ, o)
     /\ PrintT(<<"CIRC", NQ, [i \in 1..Len(circ) + 1 |-> LET x == Append(circ, o)[i] IN <<IF x.bar THEN 1 ELSE 0, x.loc>>]>>)

AddGate == \E loc \in GateLocs : OKLoc(loc) /\ Add(FALSE, loc)
AddBarrier == \E loc \in BarrierLocs : Add(TRUE, loc)
Init == circ = <<>>
Next == AddGate \/ AddBarrier
Spec == Init /\ [][Next]_circ
=============================================================================
