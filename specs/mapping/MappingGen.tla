----------------------------- MODULE MappingGen -----------------------------
(* C09: model-based generation of WORKFLOWS from MappingAlgebra (L2).

   TLC in simulation mode walks MappingAlgebra's own actions; this module only adds history:
     wf      the workflow so far: one <<kind, flavour, n, E>> per pass
             kind "setmodel" (n, E = the machine), "place" (flavour greedy | trivial | static),
             "layout" / "route" (flavour sabre | pam), "apply"
     hits    how many routing passes of this behaviour STARTED WITH fm # im  (MappingAlgebra!SecondRoutingMatters):
             the behaviours in which composing the router's pi onto the final mapping -- and not onto the initial
             one, or onto nothing -- makes a difference.  Only such workflows can tell the two apart.
     target  the length of this workflow, chosen in the initial state
     pick    two-step choice (first the kind of pass, then its parameters) so that the simulator's uniform choice
             among successor STATES is a uniform choice among kinds of passes, not among their many parameters
   When the workflow has `target` passes it is printed as <<"WF", hits, wf>> and the behaviour ends.
   The harness replays each printed workflow into the real passes (the model's own choices of placement, layout
   permutation and swaps are NOT forced on the code: MappingTrace.tla replays the code's choices through the
   model instead) and reports how many real runs actually had a routing pass start with fm # im. *)
EXTENDS MappingAlgebra

CONSTANTS MinLen,        \* shortest workflow to generate (MaxSteps of MappingAlgebra is the longest)
          GenFlavours    \* flavours of layout / routing passes to choose from: a subset of {"sabre", "pam"}
VARIABLES wf, hits, target, pick, psize, emitted
gvars == <<wf, hits, target, pick, psize, emitted>>

\* weights of the kinds of passes (index -> kind)
Menu == <<"setmodel", "place", "place", "layout", "layout", "route", "route", "route", "apply", "apply">>

GInit == /\ Init /\ wf = <<>> /\ hits = 0 /\ target \in MinLen..MaxSteps /\ pick = "setmodel" /\ psize = 0 /\ emitted = FALSE

\* the model's own choice of placement / layout permutation is not forced on the code (the code's choice is replayed through
\* the model afterwards): a few of each are enough here, they decide only what the rest of the behaviour may do
MinS(S) == CHOOSE x \in S : \A y \in S : x <= y
RECURSIVE SortedSeq(_)
SortedSeq(S) == IF S = {} THEN <<>> ELSE LET m == MinS(S) IN <<m>> \o SortedSeq(S \ {m})
Reverse(q) == [i \in 1..Len(q) |-> q[Len(q) + 1 - i]]
PlaceSample(kind) ==
  IF kind = "trivial" THEN {Id(w)}
  ELSE LET sorted == {SortedSeq(S) : S \in {T \in SUBSET (0..np - 1) : Cardinality(T) = w}}
       IN IF kind = "greedy" THEN sorted ELSE sorted \cup {Reverse(q) : q \in sorted}
LayoutSample == {Id(w), Reverse(Id(w)), [i \in 1..w |-> i % w]}

CanRun(kind) == IF kind \in {"layout", "route"} THEN PlacedConnected ELSE TRUE
GPick == /\ phase = "ready" /\ pick = "none" /\ steps < target
         /\ \E i \in 1..Len(Menu) : CanRun(Menu[i]) /\ pick' = Menu[i]
         /\ UNCHANGED <<vars, wf, hits, target, psize, emitted>>
GPickSize == /\ pick = "setmodel" /\ psize = 0 /\ steps < target
             /\ \E n \in Sizes : n >= w /\ psize' = n
             /\ UNCHANGED <<vars, wf, hits, target, pick, emitted>>
GSetModel == /\ pick = "setmodel" /\ psize > 0
             /\ \E E \in Graphs(psize) : SetModel(psize, E) /\ wf' = Append(wf, <<"setmodel", "", psize, E>>)
             /\ pick' = "none" /\ psize' = 0 /\ UNCHANGED <<hits, target, emitted>>
GPlace == /\ pick = "place"
          /\ \E kind \in PlaceKinds : \E P \in PlaceSample(kind) : Place(kind, P) /\ wf' = Append(wf, <<"place", kind, 0, {}>>)
          /\ pick' = "none" /\ UNCHANGED <<hits, target, psize, emitted>>
GLayout == /\ pick = "layout"
           /\ \E kind \in GenFlavours : \E perm \in LayoutSample : Layout(kind, perm) /\ wf' = Append(wf, <<"layout", kind, 0, {}>>)
           /\ pick' = "none" /\ UNCHANGED <<hits, target, psize, emitted>>
GRouteStart == /\ pick = "route"
               /\ \E kind \in GenFlavours : RouteStart(kind) /\ wf' = Append(wf, <<"route", kind, 0, {}>>)
               /\ hits' = hits + (IF fm # im THEN 1 ELSE 0)
               /\ pick' = "routing" /\ UNCHANGED <<target, psize, emitted>>
GInside == /\ pick = "routing"
           /\ \/ \E a, b \in 0..w - 1 : \E record \in BOOLEAN : a < b /\ RouteSwap(a, b, record)
              \/ \E x, y \in 0..w - 1 : x < y /\ RoutePerm(x, y)
              \/ ExecGate
              \/ Backtrack
           /\ UNCHANGED gvars
GRouteEnd == /\ pick = "routing" /\ RouteEnd /\ pick' = "none" /\ UNCHANGED <<wf, hits, target, psize, emitted>>
GApply == /\ pick = "apply" /\ Apply /\ wf' = Append(wf, <<"apply", "", 0, {}>>)
          /\ pick' = "none" /\ UNCHANGED <<hits, target, psize, emitted>>
GEmit == /\ phase = "ready" /\ steps = target /\ ~emitted
         /\ IF TRUE THEN PrintT(<<"WF", hits, wf>>) ELSE TRUE
         /\ emitted' = TRUE /\ UNCHANGED <<vars, wf, hits, target, pick, psize>>

GNext == GPick \/ GPickSize \/ GSetModel \/ GPlace \/ GLayout \/ GRouteStart \/ GInside \/ GRouteEnd \/ GApply \/ GEmit
GSpec == GInit /\ [][GNext]_<<vars, gvars>>
=============================================================================
