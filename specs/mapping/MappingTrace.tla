---------------------------- MODULE MappingTrace ----------------------------
(* C09: binds MappingAlgebra (L2) to the code.  Each case is one run of the real passes with a snapshot of
   PassData (placement, initial_mapping, final_mapping) after every pass and the SwapGates found in the routed
   circuit before ApplyPlacement.  The run is replayed through MappingAlgebra's own actions with the recorded
   parameters; after every pass the model's variables must equal the snapshot.  A difference is printed as
   <<"DRIFT", tid, pass, what>> (the model no longer describes the code: reported, not a violation); a case that
   ran to its end prints <<"DONE", tid>>.  MappingAlgebra's invariants are checked on every state of the replay. *)
EXTENDS MappingAlgebra, Json, IOUtils

Cases == JsonDeserialize(IOEnv.TRACE_FILE)
VARIABLES tid, s, j, drift
tvars == <<tid, s, j, drift>>
C == Cases[tid]
Snap == C.snaps[s]
EdgeSet == {{e[1], e[2]} : e \in Range(C.edges)}

TInit == /\ tid \in 1..Len(Cases) /\ s = 2 /\ j = 1 /\ drift = "none"
         /\ InitFor(Cases[tid].nlog, Cases[tid].nphys)

Matches == placement' = Snap.placement /\ im' = Snap.im /\ fm' = Snap.fm
Judge(name) == IF Matches THEN drift' = drift
               ELSE drift' = name /\ PrintT(<<"DRIFT", tid, name, <<placement', im', fm'>>, <<Snap.placement, Snap.im, Snap.fm>>>>)

TSetModel == /\ Snap.after = "setmodel" /\ SetModel(EdgeSet) /\ Judge("setmodel") /\ s' = s + 1 /\ UNCHANGED <<tid, j>>
TPlace == /\ Snap.after = "place"
          /\ IF Len(Snap.placement) = nl /\ Range(Snap.placement) \subseteq 0..np - 1 /\ Injective(Snap.placement)
                /\ ConnectedIn(edges, Range(Snap.placement))
             THEN Place(Snap.placement) /\ Judge("place") /\ s' = s + 1
             ELSE /\ drift' = "place" /\ PrintT(<<"DRIFT", tid, "place", "placement not admitted by the model", Snap.placement>>)
                  /\ s' = s /\ UNCHANGED vars
          /\ UNCHANGED <<tid, j>>
TLayout == /\ Snap.after = "layout"
           /\ IF Len(Snap.placement) = nl /\ Range(Snap.placement) = Range(placement) /\ Injective(Snap.placement)
              THEN Layout([q \in 1..nl |-> IndexOf(placement, Snap.placement[q]) - 1]) /\ Judge("layout") /\ s' = s + 1
              ELSE /\ drift' = "layout" /\ PrintT(<<"DRIFT", tid, "layout", "not a permutation of the placement", Snap.placement>>)
                   /\ s' = s /\ UNCHANGED vars
           /\ UNCHANGED <<tid, j>>
\* routing: RouteStart, one RouteSwap per recorded swap, RouteEnd
TRouteStart == /\ Snap.after = "route" /\ phase \in {"placed", "laid"} /\ RouteStart /\ UNCHANGED tvars
TRouteSwap == /\ Snap.after = "route" /\ phase = "routing" /\ j <= Len(C.swaps)
              /\ IF SubEdge(C.swaps[j][1], C.swaps[j][2])
                 THEN RouteSwap(C.swaps[j][1], C.swaps[j][2], FALSE) /\ j' = j + 1 /\ drift' = drift
                 ELSE /\ drift' = "route" /\ PrintT(<<"DRIFT", tid, "route", "swap not on an edge of the placed subgraph", C.swaps[j]>>)
                      /\ j' = j /\ UNCHANGED vars
              /\ UNCHANGED <<tid, s>>
TRouteEnd == /\ Snap.after = "route" /\ phase = "routing" /\ j = Len(C.swaps) + 1
             /\ RouteEnd /\ Judge("route") /\ s' = s + 1 /\ UNCHANGED <<tid, j>>
TApply == /\ Snap.after = "apply" /\ Apply /\ Judge("apply") /\ s' = s + 1 /\ UNCHANGED <<tid, j>>
TDone == /\ s = Len(C.snaps) + 1 /\ drift = "none"
         /\ drift' = "done" /\ PrintT(<<"DONE", tid>>)
         /\ UNCHANGED vars /\ UNCHANGED <<tid, s, j>>

TNext == \/ (drift = "none" /\ s <= Len(C.snaps) /\ (TSetModel \/ TPlace \/ TLayout \/ TRouteStart \/ TRouteSwap \/ TRouteEnd \/ TApply))
         \/ TDone
TSpec == TInit /\ [][TNext]_<<vars, tvars>>
=============================================================================
