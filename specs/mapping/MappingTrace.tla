---------------------------- MODULE MappingTrace ----------------------------
(* C09: binds MappingAlgebra (L2) to the code.  Each case is one run of a workflow of the real passes (any sequence of
   SetModel / placement / layout / routing / ApplyPlacement passes on one PassData) with, after every pass, a snapshot
     after, flavour      which pass ran ("setmodel" | "place" | "layout" | "route" | "apply"; greedy/trivial/static, sabre/pam)
     n, edges            the machine (setmodel only)
     placement, im, fm   PassData.placement / initial_mapping / final_mapping
     swaps               (route) every change the router made to its pi, in order: <<0, a, b>> a swap of the wires a, b
                         (_apply_swap; its undo swaps included), <<1, x, y>> a block variant exchanging the positions x, y
                         (_apply_perm of a two-qudit block, PAM), <<2, 0, 0>> a permutation the model has no action for
     cswaps              (route) every SwapGate of the circuit after the pass, in circuit order: what the circuit DOES
     cand                the circuit was observed at this point (it is as wide as the machine, the placement is the identity)
   The run is replayed through MappingAlgebra's own actions with the recorded parameters.  After every pass
   * the model's placement / im / fm must equal the snapshot, and after a routing pass the model's tokens must be where
     the circuit's own swaps put them; a difference is printed as <<"DRIFT", tid, step, pass, ...>> (the model no
     longer describes the code: reported, not a violation).  The replay then goes on from the code's values (TResync) or,
     when the model's action is not enabled on what the code did, by adopting the snapshot (Force): the two shape-only
     flags legal / applied are carried on in every case;
   * <<"JUDGE", tid, step>> is printed when legal /\ applied: the circuit observed at this point is one the property
     speaks about, and the harness hands it to RoutingAbs (L1) with the mappings recorded at this point.
   A case that ran to its end prints <<"DONE", tid, first drift | "none">>.  MappingAlgebra's invariants are checked on
   every state of a replay that has not drifted. *)
EXTENDS MappingAlgebra, Json, IOUtils

Cases == JsonDeserialize(IOEnv.TRACE_FILE)
VARIABLES tid, s, j, drift, resync
tvars == <<tid, s, j, drift, resync>>
C == Cases[tid]
Snap == C.snaps[s]
EdgeSet(es) == {{e[1], e[2]} : e \in Range(es)}

TInit == /\ tid \in 1..Len(Cases) /\ s = 1 /\ j = 1 /\ drift = "none" /\ resync = FALSE
         /\ InitFor(Cases[tid].nlog)

Mark(name) == IF drift = "none" THEN name ELSE drift
Matches == placement' = Snap.placement /\ im' = Snap.im /\ fm' = Snap.fm

\* what the circuit's own swaps do to the tokens that enter it
RECURSIVE Fold(_, _, _)
Fold(t, sw, k) == IF k > Len(sw) THEN t ELSE Fold(Exch(t, sw[k][1], sw[k][2]), sw, k + 1)
SwapsOK(sw) == \A k \in 1..Len(sw) : sw[k][1] \in DOMAIN tok0 /\ sw[k][2] \in DOMAIN tok0
CircuitTokens == Fold(tok0, Snap.cswaps, 1)

\* after a pass the model could take: compare, say whether the circuit is now one the property speaks about
After(name, same) ==
  /\ IF same THEN resync' = FALSE /\ drift' = drift
     ELSE /\ resync' = TRUE /\ drift' = Mark(name)
          /\ PrintT(<<"DRIFT", tid, s, name, <<placement', im', fm'>>, <<Snap.placement, Snap.im, Snap.fm>>>>)
  /\ IF legal' /\ applied' /\ Snap.cand THEN PrintT(<<"JUDGE", tid, s>>) ELSE TRUE
  /\ s' = s + 1 /\ j' = 1 /\ tid' = tid

\* the model's action is not enabled on what the code did: adopt the snapshot, carry the shape-only flags on
Force(kind, why) ==
  /\ PrintT(<<"DRIFT", tid, s, kind, why>>)
  /\ drift' = Mark(kind) /\ resync' = FALSE
  /\ placement' = Snap.placement /\ im' = Snap.im /\ fm' = Snap.fm
  /\ legal' = LegalAfter(kind) /\ applied' = AppliedAfter(kind, Snap.flavour, Snap.n)
  /\ w' = (IF kind = "apply" THEN np ELSE w)
  /\ np' = (IF kind = "setmodel" THEN Snap.n ELSE np)
  /\ edges' = (IF kind = "setmodel" THEN EdgeSet(Snap.edges) ELSE edges)
  /\ phase' = "ready" /\ steps' = steps + 1 /\ lead' = <<>> /\ nsw' = 0
  /\ pi' = Id(w') /\ tok0' = [x \in 0..w' - 1 |-> x] /\ tok' = [x \in 0..w' - 1 |-> x] /\ tokS' = [x \in 0..w' - 1 |-> x]
  /\ IF legal' /\ applied' /\ Snap.cand THEN PrintT(<<"JUDGE", tid, s>>) ELSE TRUE
  /\ s' = s + 1 /\ j' = 1 /\ tid' = tid /\ nl' = nl

TResync == /\ resync
           /\ placement' = C.snaps[s - 1].placement /\ im' = C.snaps[s - 1].im /\ fm' = C.snaps[s - 1].fm
           /\ resync' = FALSE
           /\ UNCHANGED <<nl, w, np, phase, edges, pi, lead, nsw, tok0, tok, tokS, legal, applied, steps, tid, s, j, drift>>

TSetModel == /\ Snap.after = "setmodel" /\ phase \in {"start", "ready"}
             /\ IF Snap.n >= w THEN SetModel(Snap.n, EdgeSet(Snap.edges)) /\ After("setmodel", Matches)
                ELSE Force("setmodel", "machine smaller than the circuit")
TPlace == /\ Snap.after = "place" /\ phase = "ready"
          /\ IF PlaceOK(Snap.flavour, Snap.placement) THEN Place(Snap.flavour, Snap.placement) /\ After("place", Matches)
             ELSE Force("place", "placement not admitted by the model")
TLayout == /\ Snap.after = "layout" /\ phase = "ready"
           /\ IF /\ PlacedConnected /\ Len(placement) = w /\ Len(Snap.placement) = w
                 /\ Range(Snap.placement) = Range(placement) /\ Injective(Snap.placement) /\ Injective(placement)
              THEN Layout(Snap.flavour, [q \in 1..w |-> IndexOf(placement, Snap.placement[q]) - 1]) /\ After("layout", Matches)
              ELSE Force("layout", "not a permutation of a connected placement")
\* routing: RouteStart, one RouteSwap per swap the router applied to pi, RouteEnd
TRouteStart == /\ Snap.after = "route" /\ phase = "ready"
               /\ IF PlacedConnected /\ Len(placement) = w THEN RouteStart(Snap.flavour) /\ UNCHANGED tvars
                  ELSE Force("route", "routing ran on a placement the model holds to be disconnected")
TRouteSwap == /\ Snap.after = "route" /\ phase = "routing" /\ j <= Len(Snap.swaps)
              /\ LET t == Snap.swaps[j][1] a == Snap.swaps[j][2] b == Snap.swaps[j][3] IN
                 IF t = 0 /\ a \in 0..w - 1 /\ b \in 0..w - 1 /\ SubEdge(a, b)
                 THEN RouteSwap(a, b, FALSE) /\ j' = j + 1 /\ UNCHANGED <<tid, s, drift, resync>>
                 ELSE IF t = 1 /\ a \in 0..w - 1 /\ b \in 0..w - 1 /\ a # b /\ SubEdge(pi[a + 1], pi[b + 1])
                 THEN RoutePerm(a, b) /\ j' = j + 1 /\ UNCHANGED <<tid, s, drift, resync>>
                 ELSE Force("route", "swap or block permutation not on an edge of the placed subgraph")
TRouteEnd == /\ Snap.after = "route" /\ phase = "routing" /\ j = Len(Snap.swaps) + 1
             /\ IF RouteEndOK /\ SwapsOK(Snap.cswaps)
                THEN RouteEnd /\ After(IF Matches THEN "route-tokens" ELSE "route", Matches /\ tok' = CircuitTokens)
                ELSE Force("route", "final mapping or swap out of range")
TApply == /\ Snap.after = "apply" /\ phase = "ready"
          /\ IF np > 0 /\ ApplyOK THEN Apply /\ After("apply", Matches)
             ELSE Force("apply", "placement or mappings out of range")
TDone == /\ s = Len(C.snaps) + 1 /\ ~resync
         /\ IF TRUE THEN PrintT(<<"DONE", tid, drift>>) ELSE TRUE
         /\ s' = s + 1
         /\ UNCHANGED vars /\ UNCHANGED <<tid, j, drift, resync>>

TNext == \/ (~resync /\ s <= Len(C.snaps) /\ (TSetModel \/ TPlace \/ TLayout \/ TRouteStart \/ TRouteSwap \/ TRouteEnd \/ TApply))
         \/ TResync
         \/ TDone
TSpec == TInit /\ [][TNext]_<<vars, tvars>>

\* the model's invariants, on replays in which model and code still agree
TInv == drift = "none" => /\ PublishedAreTokens /\ PiTracksTokens /\ MappingsInjective /\ MappingsInRange
                          /\ PlacementConnected /\ TokensConserved /\ AppliedMeans
=============================================================================
