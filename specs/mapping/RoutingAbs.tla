----------------------------- MODULE RoutingAbs -----------------------------
(* C09 (L1): placement, layout and routing preserve the program and respect the coupling.

   A trace specification over the OUTPUT of the workflow [SetModel, placement, layout, routing,
   ApplyPlacement].  Written from the statement only:
     "every multi-qudit operation acts on physically connected qudits, and the circuit equals the input with
      its logical qudits entering at the recorded initial mapping and leaving at the recorded final mapping.
      The mappings are injective into the machine's qudits, the placement is a connected set of physical
      qudits, and only swaps (...) are added."

   One behaviour per case (tid).  The routed circuit is replayed operation by operation over
     pi    logical -> physical, initialised from the recorded initial mapping,
     done  the input operations already seen.
   A swap must sit on an edge of the machine and exchanges the logical labels of its two wires.  Any other
   operation must be an input operation whose predecessors (previous operation on each of its logical
   qudits) are done, sitting exactly at pi of its logical location, with unchanged parameters, and - for a
   gate on two or more qudits - on a set of physical qudits that induces a connected subgraph of the machine
   (an edge for two qudits; a connected triple, not necessarily a triangle, for three: the statement says
   "physically connected").  Accepted iff every input operation was seen and the final pi is the recorded
   final mapping.

   Weaker readings taken where the statement leaves room:
   * barriers are not operations that act: they need no connectivity; neither does a block (CircuitGate) that
     contains single-qudit gates only (needconn is computed from the input, not from the output);
   * a barrier carries no tag; an output barrier is matched with any not-yet-seen input barrier that is ready
     and whose logical location maps to it under the current pi;
   * nothing is said about which swaps are chosen, how many, or about the order of independent operations.

   A case record carries
     nphys, edges   the machine                           nlog   number of logical qudits
     inseq          per logical qudit: ids of the input's operations in program order
     oploc, kind, par, needconn   per id: logical location, "g" | "b", parameters (micro-units), needs-connectivity
     out            the output circuit in simulation order: [k |-> "s" swap | "g" identified op | "b" barrier | "x" other,
                                                            id, loc (physical), par]
     pinit, pfinal  the recorded initial / final mapping (after ApplyPlacement), placement (before ApplyPlacement),
     pw             the width of the circuit the placement was for (nlog in a one-stage workflow; the width of the
                    previous machine when an already placed circuit is placed again)
     raised         "" or the exception text when the workflow raised on an input it does not document as refused *)
EXTENDS Naturals, Integers, Sequences, FiniteSets, TLC, Json, IOUtils

Cases == JsonDeserialize(IOEnv.TRACE_FILE)
VARIABLES tid, l, pi, done, bad
vars == <<tid, l, pi, done, bad>>
C == Cases[tid]

Range(s) == {s[i] : i \in 1..Len(s)}
Edge(p, q) == \E e \in Range(C.edges) : (e[1] = p /\ e[2] = q) \/ (e[1] = q /\ e[2] = p)
\* connectivity of the subgraph the machine induces on a set S of physical qudits
RECURSIVE Reach(_, _)
Reach(S, R) == LET R2 == R \cup {q \in S : \E p \in R : Edge(p, q)} IN IF R2 = R THEN R ELSE Reach(S, R2)
Connected(S) == S = {} \/ LET s == CHOOSE x \in S : TRUE IN Reach(S, {s}) = S
Injective(f) == \A i, j \in 1..Len(f) : i # j => f[i] # f[j]
InRange(f) == \A i \in 1..Len(f) : f[i] \in 0..C.nphys - 1

\* what can be said before looking at the circuit
StaticVerdict ==
  IF C.raised # "" THEN "workflow-raised"
  ELSE IF Len(C.pinit) # C.nlog \/ Len(C.pfinal) # C.nlog \/ Len(C.placement) # C.pw THEN "mapping-wrong-length"
  ELSE IF ~InRange(C.pinit) \/ ~InRange(C.pfinal) \/ ~InRange(C.placement) THEN "mapping-out-of-range"
  ELSE IF ~Injective(C.pinit) \/ ~Injective(C.pfinal) \/ ~Injective(C.placement) THEN "mapping-not-injective"
  ELSE IF ~Connected(Range(C.placement)) THEN "placement-disconnected"
  ELSE "ok"

\* predecessors of input operation id: the previous operation on each of its logical qudits
PredsOf(id) ==
  UNION {{C.inseq[q + 1][k - 1] : k \in {j \in 2..Len(C.inseq[q + 1]) : C.inseq[q + 1][j] = id}} : q \in Range(C.oploc[id])}
Mapped(id) == [i \in 1..Len(C.oploc[id]) |-> pi[C.oploc[id][i] + 1]]
Ids == 1..Len(C.oploc)
\* input barriers an output barrier at physical location P may stand for
BarrierAt(P) == {id \in Ids : C.kind[id] = "b" /\ id \notin done /\ Mapped(id) = P}

Verdict(o) ==
  IF \E i \in 1..Len(o.loc) : o.loc[i] \notin 0..C.nphys - 1 THEN "malformed-observation"
  ELSE IF o.k = "s" THEN
     IF Len(o.loc) # 2 THEN "malformed-observation"
     ELSE IF ~Edge(o.loc[1], o.loc[2]) THEN "swap-off-edge" ELSE "ok"
  ELSE IF o.k = "b" THEN
     IF BarrierAt(o.loc) = {} THEN "foreign-op"
     ELSE IF \A id \in BarrierAt(o.loc) : ~(PredsOf(id) \subseteq done) THEN "dependency-violated"
     ELSE "ok"
  ELSE IF o.k # "g" \/ o.id \notin Ids THEN "foreign-op"       \* something that is neither a swap nor an input operation was added
  ELSE IF o.id \in done THEN "op-duplicated"
  ELSE IF ~(PredsOf(o.id) \subseteq done) THEN "dependency-violated"
  ELSE IF o.loc # Mapped(o.id) THEN "wrong-physical-location"
  ELSE IF C.needconn[o.id] /\ ~Connected(Range(o.loc)) THEN "not-connected"
  ELSE IF o.par # C.par[o.id] THEN "params-changed"
  ELSE "ok"

\* the input operation an accepted non-swap item stands for
Which(o) == IF o.k = "b"
            THEN CHOOSE id \in BarrierAt(o.loc) : PredsOf(id) \subseteq done /\ \A j \in BarrierAt(o.loc) : (PredsOf(j) \subseteq done) => id <= j
            ELSE o.id

Init == /\ tid \in 1..Len(Cases) /\ l = 0 /\ bad = "none" /\ done = {}
        /\ pi = Cases[tid].pinit

Check ==
  /\ bad = "none" /\ l = 0
  /\ LET v == StaticVerdict IN
     IF v = "ok" THEN l' = 1 /\ bad' = bad
     ELSE l' = l /\ bad' = v /\ PrintT(<<"VERDICT", tid, 0, v>>)
  /\ UNCHANGED <<tid, pi, done>>

Step ==
  /\ bad = "none" /\ l >= 1 /\ l <= Len(C.out)
  /\ LET o == C.out[l]
         v == Verdict(o)
     IN IF v = "ok" THEN
          /\ l' = l + 1 /\ bad' = bad
          /\ IF o.k = "s"
             THEN /\ pi' = [i \in 1..Len(pi) |-> IF pi[i] = o.loc[1] THEN o.loc[2] ELSE IF pi[i] = o.loc[2] THEN o.loc[1] ELSE pi[i]]
                  /\ done' = done
             ELSE /\ pi' = pi /\ done' = done \cup {Which(o)}
        ELSE /\ bad' = v /\ PrintT(<<"VERDICT", tid, l, v>>) /\ UNCHANGED <<l, pi, done>>
  /\ tid' = tid

Finish ==
  /\ bad = "none" /\ l = Len(C.out) + 1
  /\ LET v == IF done # Ids THEN "ops-lost"
              ELSE IF pi # C.pfinal THEN "final-mapping-wrong"
              ELSE "accepted"
     IN /\ bad' = v
        /\ IF v = "accepted" THEN TRUE ELSE PrintT(<<"VERDICT", tid, l, v>>)
  /\ UNCHANGED <<tid, l, pi, done>>

Next == Check \/ Step \/ Finish
Spec == Init /\ [][Next]_vars
=============================================================================
