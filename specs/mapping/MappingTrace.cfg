SPECIFICATION TSpec
CONSTANTS
  NL = 1
  NP = 1
  GraphMode = "rep"
  MaxSwaps = 1000000
INVARIANTS PublishedAreTokens PiTracksTokens MappingsInjective MappingsInRange PlacementConnected TokensConserved
CHECK_DEADLOCK FALSE
