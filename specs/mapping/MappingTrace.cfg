SPECIFICATION TSpec
CONSTANTS
  NL = 1
  Sizes = {1}
  GraphMode = "rep"
  MaxSwaps = 1000000
  MaxSteps = 1000000
INVARIANTS TInv
CHECK_DEADLOCK FALSE
