------------------------- MODULE ControlFlowInterp -------------------------
(* C11: the pass language of BQSKit's control passes as a recursive interpreter over an abstract circuit
   and an abstract pass-data record.  Pure definitions; used by ControlFlow.tla (validation of recorded
   executions of the real passes) and ControlFlowMC.tla (TLC enumerates pass trees x predicate scripts and
   checks meta-properties of these definitions).

   Pass tree node:  [k |-> kind, c |-> <<children>>, a |-> <<integer attributes>>]
     "body"    a = <<id, behaviour, wd, wm, we [, wi]>>   (wi: in-place writes, see InitCell below; absent = 0)
               behaviour 0 mark (append one full-width op), 1 identity,
                                                  2 rewrite (retag every primitive op), 3 shrink to empty,
                                                  4 grow (append two ops), 5 fail (raise);
                                                  wd/wm/we = 1: writes user keys / placement + both mappings / error
     "noop"
     "seq"     Workflow([...])
     "if"      a = <<pk>>          c = <<then, else>>     IfThenElsePass
     "while"   a = <<pk>>          c = <<body>>           WhileLoopPass
     "dowhile" a = <<pk>>          c = <<body>>           DoWhileLoopPass
     "dtd"     a = <<ck>>          c = <<body>>           DoThenDecide
     "par"     a = <<lk>>          c = <<branches>>       ParallelDo (pick_first = False)
     "foreach" a = <<cf, rf, calc>> c = <<body>>          ForEachBlockPass
   A node is identified by its path (sequence of child indices from the root).

   Predicate kinds pk: 0 scripted, 1 true, 2 false, 3 "the circuit has at least two operations".
   DoThenDecide condition kinds ck: 0 scripted, 1 accept, 2 reject, 3 new has no more operations than old, 4 new not empty.
   ParallelDo less_than kinds lk: 0 scripted, 1 true, 2 false, 3 candidate has fewer operations than the best so far.
   Collection filters cf: 0 the pass's default (blocks only), 1 every operation, 2 none, 3 first tag even, 4 width >= 2.
   Replace filters rf: 0 'always', 1 never, 2 scripted (one entry per call), 3 'less-than'.

   Scripts: table of [n |-> path, blk |-> block index | -1 (not inside a ForEach body) | -2 (any), s |-> <<booleans>>];
   the i-th evaluation at (node, block) returns s[i], FALSE beyond the end.

   Abstract circuit: sequence of ops in program (iteration) order, op = [t |-> tag, loc |-> qudits, b |-> is a block,
   sub |-> inner circuit of a block (local qudit numbers)].
   Abstract pass data: [d, k (user keys), cell/cr (a pre-existing mutable value and its identity), gs (gate set of the model), pl (placement), im, fm (initial/final mapping), err (rational <<num, den>>),
   saw0 (tags of the circuit the first body that touched this record was given), fe (ForEachBlockPass_data:
   one sequence of [dat, rep] per execution of a ForEachBlockPass)].

   env = [sc |-> script table,
          l2 |-> subset of {"dtd", "par", "shallow"}: "shallow" = DoThenDecide's snapshot is a shallow copy; "dtd"/"par" = node kinds whose state restore is modelled the way PassData.become
                 works in the implementation today (both mappings are NOT copied).  {} is the property (L1).
          berr |-> for calculate_error_bound = TRUE: the observed per-block errors (the numeric distance cannot be
                 recomputed here; only the bookkeeping formula is checked)]                                       *)
EXTENDS Naturals, Integers, Sequences, FiniteSets, TLC

Range(s) == {s[i] : i \in 1..Len(s)}
Id(w) == [i \in 1..w |-> i - 1]
Rot(w, r) == [i \in 1..w |-> (i - 1 + r) % w]

\* ------------------------------------------------------------------ exact rationals <<num, den>>, den > 0
RECURSIVE Gcd(_, _)
Gcd(a, b) == IF b = 0 THEN a ELSE Gcd(b, a % b)
Abs(x) == IF x < 0 THEN -x ELSE x
Norm(n, d) == LET g == Gcd(Abs(n), d) IN <<n \div g, d \div g>>
RSub(a, b) == Norm(a[1] * b[2] - b[1] * a[2], a[2] * b[2])
RAdd(a, b) == Norm(a[1] * b[2] + b[1] * a[2], a[2] * b[2])
RMul(a, b) == Norm(a[1] * b[1], a[2] * b[2])
ROne == <<1, 1>>
\* PassData.update_error_mul: error <- 1 - (1 - error)(1 - e)
ErrMul(err, e) == RSub(ROne, RMul(RSub(ROne, err), RSub(ROne, e)))

\* ------------------------------------------------------------------ circuits
Prim(t, loc) == [t |-> t, loc |-> loc, b |-> FALSE, sub |-> <<>>]
Block(loc, inner) == [t |-> 0, loc |-> loc, b |-> TRUE, sub |-> inner]
RECURSIVE Tags(_)
Tags(c) == IF Len(c) = 0 THEN <<>>
           ELSE (IF c[1].b THEN Tags(c[1].sub) ELSE <<c[1].t>>) \o Tags(SubSeq(c, 2, Len(c)))
FirstTag(o) == LET t == Tags(<<o>>) IN IF Len(t) = 0 THEN 0 ELSE t[1]

\* A mutable cell: the value of the user key 'cell' (a dict holding a list and a nested dict) that exists in every pass data
\* BEFORE the pass tree starts.  data.cell is its (deep) value, data.cr names the OBJECT currently bound to the key
\* (index into s.heap, the store of cell objects: s.heap[data.cr] = data.cell is an invariant).  A body may
\*   wi = 1  mutate the cell in place (the object keeps its identity),   wi = 2  rebind the key to a new object,
\*   wi = 3  edit the lists behind initial_mapping / final_mapping in place,   wi = 4  edit the placement list in place,
\*   wi = 5  mutate the machine model in place (data.gate_set = ... assigns into the model object).
\* The property (L1) is about values: a restore point gives back the deep value the data had.  Identity only matters
\* for the implementation-shaped variants (env.l2).
InitCell == [l |-> <<0>>, x |-> 0]
Fresh(w) == [d |-> <<>>, k |-> 0, pl |-> Id(w), im |-> Id(w), fm |-> Id(w), err |-> <<0, 1>>, saw0 |-> <<-1>>, fe |-> <<>>,
             cell |-> InitCell, cr |-> 1, gs |-> 0]

\* ------------------------------------------------------------------ scripts
ScriptOf(sc, key) ==
  LET S == {i \in 1..Len(sc) : sc[i].n = key[1] /\ (sc[i].blk = key[2] \/ sc[i].blk = -2)}
  IN IF S = {} THEN <<>> ELSE sc[CHOOSE i \in S : TRUE].s
Count(pos, key) == Cardinality({i \in 1..Len(pos) : pos[i] = key})
Scripted(sc, s, key) == LET i == Count(s.pos, key) + 1  scr == ScriptOf(sc, key)
                        IN IF i <= Len(scr) THEN scr[i] ELSE FALSE
Adv(s, key) == [s EXCEPT !.pos = Append(@, key)]
\* a PassPredicate sees the pass data, hence the block it runs in; conditions of DoThenDecide / ParallelDo / replace
\* filters only see circuits: their scripts are per node
EvalPred(pk, path, s, env) ==
  CASE pk = 0 -> <<Scripted(env.sc, s, <<path, s.blk>>), Adv(s, <<path, s.blk>>)>>
    [] pk = 1 -> <<TRUE, s>>
    [] pk = 2 -> <<FALSE, s>>
    [] pk = 3 -> <<Len(s.circ) >= 2, s>>
EvalCond(ck, path, old, new, s, env) ==
  CASE ck = 0 -> <<Scripted(env.sc, s, <<path, -1>>), Adv(s, <<path, -1>>)>>
    [] ck = 1 -> <<TRUE, s>>
    [] ck = 2 -> <<FALSE, s>>
    [] ck = 3 -> <<Len(new) <= Len(old), s>>
    [] ck = 4 -> <<Len(new) > 0, s>>
EvalLess(lk, path, cand, best, s, env) ==
  CASE lk = 0 -> <<Scripted(env.sc, s, <<path, -1>>), Adv(s, <<path, -1>>)>>
    [] lk = 1 -> <<TRUE, s>>
    [] lk = 2 -> <<FALSE, s>>
    [] lk = 3 -> <<Len(cand) < Len(best), s>>
Collect(cf, op) ==
  CASE cf = 0 -> op.b
    [] cf = 1 -> TRUE
    [] cf = 2 -> FALSE
    [] cf = 3 -> FirstTag(op) % 2 = 0
    [] cf = 4 -> Len(op.loc) >= 2

\* ------------------------------------------------------------------ logs
\* s.log: sequence of segments; a segment is a sequence of chains (sequences of entries) that may interleave
\* (branches of one ParallelDo, blocks of one ForEachBlockPass); a body outside any group is a one-chain segment.
Entry(path, id, blk, circ) == [n |-> path, id |-> id, blk |-> blk, saw |-> Range(Tags(circ))]
RECURSIVE SeqLog(_)         \* canonical sequential order (chains one after the other)
RECURSIVE CatAll(_)
CatAll(chains) == IF Len(chains) = 0 THEN <<>> ELSE chains[1] \o CatAll(SubSeq(chains, 2, Len(chains)))
SeqLog(log) == IF Len(log) = 0 THEN <<>> ELSE CatAll(log[1]) \o SeqLog(SubSeq(log, 2, Len(log)))
Nested(log) == \E g \in 1..Len(log) : Len(log[g]) > 1      \* a group inside a chain of a group: not supported by the matcher

\* ------------------------------------------------------------------ the interpreter
\* state s = [log, pos (scripted evaluations so far: sequence of <<path, blk>>), circ, data, failed, n (width), blk, res
\*            (block ops written back by ForEachBlockPass executions, for diagnostics)]
ExecBody(t, path, s) ==
  LET id == t.a[1]  beh == t.a[2]  len == Len(s.circ)  full == Id(s.n)
      s1 == [s EXCEPT !.log = Append(@, << <<Entry(path, id, s.blk, s.circ)>> >>)]
      circ2 == CASE beh = 0 -> Append(s.circ, Prim(100 * id + len, full))
                 [] beh = 1 -> s.circ
                 [] beh = 2 -> [j \in 1..len |-> IF s.circ[j].b THEN s.circ[j] ELSE [s.circ[j] EXCEPT !.t = @ + 1000 * id]]
                 [] beh = 3 -> <<>>
                 [] beh = 4 -> Append(Append(s.circ, Prim(100 * id + len, full)), Prim(100 * id + 50 + len, full))
                 [] beh = 5 -> s.circ
      d1 == IF t.a[3] = 1 THEN [s.data EXCEPT !.d = Append(@, id), !.k = id] ELSE s.data
      d2 == IF t.a[4] = 1 THEN [d1 EXCEPT !.pl = Rot(s.n, id + 1), !.im = Rot(s.n, id), !.fm = Rot(s.n, 2 * id + 1)] ELSE d1
      d3 == IF t.a[5] = 1 THEN [d2 EXCEPT !.err = Norm(id, 16)] ELSE d2
      d4 == IF d3.saw0 = <<-1>> THEN [d3 EXCEPT !.saw0 = Tags(s.circ)] ELSE d3
      wi == IF Len(t.a) >= 6 THEN t.a[6] ELSE 0
      mut == [l |-> Append(d4.cell.l, id), x |-> d4.cell.x + id]             \* in place: append to the list, bump the nested entry
      new == [l |-> Append(d4.cell.l, id + 10), x |-> id]                      \* a new object bound to the key
      d5 == CASE wi = 1 -> [d4 EXCEPT !.cell = mut]
              [] wi = 2 -> [d4 EXCEPT !.cell = new, !.cr = Len(s.heap) + 1]
              [] wi = 3 -> [d4 EXCEPT !.im = Rot(s.n, id + 2), !.fm = Rot(s.n, 2 * id + 2)]
              [] wi = 4 -> [d4 EXCEPT !.pl = Rot(s.n, id + 2)]
              [] wi = 5 -> [d4 EXCEPT !.gs = id]
              [] OTHER -> d4
      heap2 == CASE wi = 1 -> [s.heap EXCEPT ![d4.cr] = mut]
                 [] wi = 2 -> Append(s.heap, new)
                 [] OTHER -> s.heap
  IN IF beh = 5 THEN [s1 EXCEPT !.failed = TRUE] ELSE [s1 EXCEPT !.circ = circ2, !.data = d5, !.heap = heap2]

RECURSIVE Exec(_, _, _, _)
RECURSIVE RunSeq(_, _, _, _, _)
RunSeq(t, path, i, s, env) == IF i > Len(t.c) THEN s ELSE RunSeq(t, path, i + 1, Exec(t.c[i], path \o <<i>>, s, env), env)

ExecDTD(t, path, s, env) ==
  LET s0 == Exec(t.c[1], path \o <<1>>, s, env) IN
  IF s0.failed THEN s0 ELSE
  LET e == EvalCond(t.a[1], path, s.circ, s0.circ, s0, env) IN
  IF e[1] THEN e[2]
  \* rejected: circuit and data are what they were (deep values).  "shallow" (L2 variant): the snapshot shares the
  \* objects stored under user keys, so it shows whatever was done IN PLACE to the object that was bound before the
  \* body started (s.data.cr), while rebinding and everything held in dedicated fields is undone.
  ELSE LET d0 == IF "dtd" \in env.l2 THEN [s.data EXCEPT !.im = s0.data.im, !.fm = s0.data.fm] ELSE s.data
           sh == "shallow" \in env.l2
       IN [e[2] EXCEPT !.circ = s.circ, !.res = s.res,
                       \* (the list under ForEachBlockPass_data is such an object once an earlier ForEachBlockPass created it)
                       !.data = IF sh THEN [d0 EXCEPT !.cell = s0.heap[s.data.cr],
                                                      !.fe = IF Len(s.data.fe) > 0 THEN s0.data.fe ELSE @] ELSE d0,
                       !.heap = IF sh THEN s0.heap ELSE [s0.heap EXCEPT ![s.data.cr] = s.data.cell]]

\* suffix of scripted evaluations a sub-execution added
NewPos(sub, s) == SubSeq(sub.pos, Len(s.pos) + 1, Len(sub.pos))

ExecPar(t, path, s, env) ==
  LET m == Len(t.c)
      R == TLCEval([b \in 1..m |-> Exec(t.c[b], path \o <<b>>, [s EXCEPT !.log = <<>>], env)])
      pos1 == LET RECURSIVE P(_) P(b) == IF b = 0 THEN s.pos ELSE P(b - 1) \o NewPos(R[b], s) IN P(m)
      RECURSIVE Pick(_, _, _)       \* <<index of the best so far, state carrying pos>>
      Pick(b, best, st) == IF b > m THEN <<best, st>>
                           ELSE LET e == EvalLess(t.a[1], path, R[b].circ, R[best].circ, st, env)
                                IN Pick(b + 1, IF e[1] THEN b ELSE best, e[2])
      seg == [b \in 1..m |-> SeqLog(R[b].log)]
      bad == \E b \in 1..m : R[b].failed
      s1 == [s EXCEPT !.pos = pos1, !.log = Append(@, seg)]
  IN IF bad THEN [s1 EXCEPT !.failed = TRUE]
     ELSE LET p == Pick(2, 1, s1)  w == R[p[1]] IN
          [p[2] EXCEPT !.circ = w.circ, !.res = w.res, !.heap = w.heap,
                       !.data = IF "par" \in env.l2 THEN [w.data EXCEPT !.im = s.data.im, !.fm = s.data.fm] ELSE w.data]

\* observed error of block i (calculate_error_bound); an observation with fewer block entries is judged by the shape clauses
BErr(env, i) == IF i <= Len(env.berr) THEN Norm(env.berr[i][1], env.berr[i][2]) ELSE <<0, 1>>
ExecFE(t, path, s, env) ==
  LET cf == t.a[1]  rf == t.a[2]  calc == (t.a[3] = 1)
      sel == SelectSeq([j \in 1..Len(s.circ) |-> j], LAMBDA j : Collect(cf, s.circ[j]))
      m == Len(sel)
  IN IF m = 0 THEN [s EXCEPT !.data.fe = Append(@, <<>>), !.log = Append(@, <<>>)] ELSE
  LET Sub(i) == LET op == s.circ[sel[i]]  w == Len(op.loc)
                    c0 == IF op.b THEN op.sub ELSE <<[op EXCEPT !.loc = Id(w)]>>
                IN Exec(t.c[1], path \o <<1>>,
                        [log |-> <<>>, pos |-> s.pos, circ |-> c0, data |-> [Fresh(w) EXCEPT !.gs = s.data.gs], failed |-> FALSE, n |-> w, blk |-> i - 1, res |-> {},
                         heap |-> <<InitCell>>],
                        env)
      \* (a block's model is the sub-model of the outer one: it has the outer gate set)
      R == TLCEval([i \in 1..m |-> Sub(i)])
      pos1 == LET RECURSIVE P(_) P(i) == IF i = 0 THEN s.pos ELSE P(i - 1) \o NewPos(R[i], s) IN P(m)
      seg == [i \in 1..m |-> SeqLog(R[i].log)]
      bad == \E i \in 1..m : R[i].failed
      s1 == [s EXCEPT !.pos = pos1, !.log = Append(@, seg)]
      \* replace filter: called once per block, in collection order, in the task of the ForEachBlockPass itself
      RECURSIVE Acc(_, _, _)       \* <<sequence of accept flags, state carrying pos>>
      Acc(i, flags, st) ==
        IF i > m THEN <<flags, st>>
        ELSE LET op == s.circ[sel[i]]
                 e == CASE rf = 0 -> <<TRUE, st>>
                        [] rf = 1 -> <<FALSE, st>>
                        [] rf = 2 -> <<Scripted(env.sc, st, <<path, -1>>), Adv(st, <<path, -1>>)>>
                        [] rf = 3 -> <<IF op.b THEN Len(R[i].circ) < Len(op.sub) ELSE TRUE, st>>
             IN Acc(i + 1, Append(flags, e[1]), e[2])
  IN IF bad THEN [s1 EXCEPT !.failed = TRUE] ELSE
  LET a == Acc(1, <<>>, s1)  flags == a[1]
      newop(i) == Block(s.circ[sel[i]].loc, R[i].circ)
      circ2 == [j \in 1..Len(s.circ) |->
                  IF \E i \in 1..m : sel[i] = j /\ flags[i] THEN newop(CHOOSE i \in 1..m : sel[i] = j) ELSE s.circ[j]]
      bd == TLCEval([i \in 1..m |-> [dat |-> IF calc THEN [R[i].data EXCEPT !.err = BErr(env, i)] ELSE R[i].data,
                             rep |-> flags[i]]])
      esum == LET RECURSIVE S(_) S(i) == IF i = 0 THEN <<0, 1>> ELSE IF flags[i] THEN RAdd(S(i - 1), bd[i].dat.err) ELSE S(i - 1) IN S(m)
  IN [a[2] EXCEPT !.circ = circ2,
                  !.res = @ \cup {newop(i) : i \in {x \in 1..m : flags[x]}},
                  !.data = [@ EXCEPT !.fe = Append(@, bd), !.err = ErrMul(@, esum)]]

Exec(t, path, s, env) ==
  IF s.failed THEN s ELSE
  CASE t.k = "body" -> ExecBody(t, path, s)
    [] t.k = "noop" -> s
    [] t.k = "seq"  -> RunSeq(t, path, 1, s, env)
    [] t.k = "if"   -> LET e == EvalPred(t.a[1], path, s, env)
                       IN IF e[1] THEN Exec(t.c[1], path \o <<1>>, e[2], env) ELSE Exec(t.c[2], path \o <<2>>, e[2], env)
    [] t.k = "while" -> LET e == EvalPred(t.a[1], path, s, env)
                        IN IF e[1] THEN Exec(t, path, Exec(t.c[1], path \o <<1>>, e[2], env), env) ELSE e[2]
    [] t.k = "dowhile" -> LET s0 == Exec(t.c[1], path \o <<1>>, s, env) IN
                          IF s0.failed THEN s0
                          ELSE LET e == EvalPred(t.a[1], path, s0, env) IN IF e[1] THEN Exec(t, path, e[2], env) ELSE e[2]
    [] t.k = "dtd"  -> ExecDTD(t, path, s, env)
    [] t.k = "par"  -> ExecPar(t, path, s, env)
    [] t.k = "foreach" -> ExecFE(t, path, s, env)

Start(n, circ0, e0) == [log |-> <<>>, pos |-> <<>>, circ |-> circ0, data |-> [Fresh(n) EXCEPT !.err = Norm(e0, 16)],
                        failed |-> FALSE, n |-> n, blk |-> -1, res |-> {}, heap |-> <<InitCell>>]
Env(sc, l2, berr) == [sc |-> sc, l2 |-> l2, berr |-> berr]

RECURSIVE HasKind(_, _)
HasKind(t, k) == t.k = k \/ \E i \in 1..Len(t.c) : HasKind(t.c[i], k)
=============================================================================
