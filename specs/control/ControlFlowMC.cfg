SPECIFICATION Spec
CONSTANTS
  MaxDepth = 2
  Rich = FALSE
INVARIANTS
  DTDRestores
  WhileCount
  DoWhileCount
  SeqConcat
  IfOneBranch
  ParPicksABranch
  FEShape
  LogProjection
  L2OnlyMappings
  ShallowOnlyCell
  Sanity
  Export
CHECK_DEADLOCK FALSE
