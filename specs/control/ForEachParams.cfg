SPECIFICATION ValSpec
CONSTANTS
  MaxBlocks = 2
INVARIANT Check
CHECK_DEADLOCK FALSE
