--------------------------- MODULE ControlFlowMC ---------------------------
(* C11: TLC enumerates pass trees x predicate scripts as the states of a generator, runs the interpreter of
   ControlFlowInterp on each, and checks meta-properties of the interpreter as invariants.  Every "run" state is
   exported (one <<"CASE", json>> line) and executed on the real passes by harness/checks/c11.py.

   Generator: a tree grows bottom-up.  "grow" states hold a complete tree; Wrap* actions put it under a new control
   node (siblings come from the set T1 of all trees of depth <= 1), Choose fixes one script per scripted node and
   runs the interpreter.  With MaxDepth = 2 every tree of depth <= 2 over the alphabet is reached; with MaxDepth = 3
   the depth-3 trees whose binary nodes have one child of depth <= 1.
   Restrictions (the harness has the same): no ParallelDo/ForEach inside a ParallelDo branch or a ForEach body;
   no scripted DoThenDecide condition / less_than / replace filter inside a ForEach body (they do not see the block).  *)
EXTENDS ControlFlowInterp, Json

CONSTANTS MaxDepth, Rich
VARIABLES phase, tree, script
vars == <<phase, tree, script>>

Node(k, c, a) == [k |-> k, c |-> c, a |-> a]
Body(id, beh, wd, wm, we, wi) == Node("body", <<>>, <<id, beh, wd, wm, we, wi>>)
Noop == Node("noop", <<>>, <<>>)

\* partitioned 3-qudit input in iteration order: block A on (0,1), op 3 on (2) | op 6 on (0), block B on (1,2)
Circ0 == << Block(<<0, 1>>, <<Prim(1, <<0, 1>>), Prim(2, <<1>>)>>), Prim(3, <<2>>), Prim(6, <<0>>),
            Block(<<1, 2>>, <<Prim(4, <<0>>), Prim(5, <<0, 1>>)>>) >>
S0 == Start(3, Circ0, 1)

\* body 1 also mutates the pre-existing cell in place, body 2 rebinds its key (so "mutate", "rebind", "mutate then rebind",
\* "rebind then mutate the new object" all occur under every control node); body 4 edits the mapping lists in place
Leaves == IF Rich THEN {Body(1, 0, 1, 1, 1, 1), Body(2, 0, 1, 0, 0, 2), Body(4, 3, 1, 0, 1, 3)}
          ELSE {Body(1, 0, 1, 1, 1, 1), Body(2, 0, 1, 0, 0, 2)}
ScriptChoices == IF Rich THEN {<<>>, <<TRUE>>, <<FALSE, TRUE>>, <<TRUE, TRUE, FALSE, TRUE>>}
                 ELSE {<<>>, <<TRUE>>, <<TRUE, TRUE, FALSE, TRUE>>}

RECURSIVE Depth(_)
Depth(t) == IF Len(t.c) = 0 THEN 0
            ELSE 1 + (LET RECURSIVE M(_) M(i) == IF i = 0 THEN 0 ELSE (LET d == Depth(t.c[i]) m == M(i - 1) IN IF d > m THEN d ELSE m) IN M(Len(t.c)))
IsGroup(t) == t.k \in {"par", "foreach"}
RECURSIVE HasGroup(_)
HasGroup(t) == IsGroup(t) \/ \E i \in 1..Len(t.c) : HasGroup(t.c[i])
RECURSIVE HasBlindScript(_)     \* scripted callables that cannot see which block they run in
HasBlindScript(t) == (t.k \in {"dtd", "par"} /\ t.a[1] = 0) \/ (t.k = "foreach" /\ t.a[2] = 2)
                     \/ \E i \in 1..Len(t.c) : HasBlindScript(t.c[i])

Unary == {"while", "dowhile", "dtd"}
FEVariants == {<<0, 0, 0>>, <<1, 2, 0>>, <<3, 0, 0>>, <<1, 3, 0>>}
T1 == Leaves
      \cup {Node(k, <<t>>, <<0>>) : k \in Unary, t \in Leaves}
      \cup {Node("seq", <<a, b>>, <<>>) : a \in Leaves, b \in Leaves}
      \cup {Node("if", <<a, b>>, <<0>>) : a \in Leaves, b \in Leaves \cup {Noop}}
      \cup {Node("par", <<a, b>>, <<0>>) : a \in Leaves, b \in Leaves}
      \cup {Node("foreach", <<t>>, v) : t \in Leaves, v \in FEVariants}

\* ------------------------------------------------------------------ scripted nodes of a tree
RECURSIVE SKeys(_, _, _)
SKeys(t, path, infe) ==
  LET own == IF t.k \in {"if", "while", "dowhile"} /\ t.a[1] = 0 THEN << [n |-> path, blk |-> IF infe THEN -2 ELSE -1] >>
             ELSE IF (t.k \in {"dtd", "par"} /\ t.a[1] = 0) \/ (t.k = "foreach" /\ t.a[2] = 2) THEN << [n |-> path, blk |-> -1] >>
             ELSE <<>>
      RECURSIVE Kids(_)
      Kids(i) == IF i > Len(t.c) THEN <<>> ELSE SKeys(t.c[i], path \o <<i>>, infe \/ t.k = "foreach") \o Kids(i + 1)
  IN own \o Kids(1)
Tables(t) == LET ks == SKeys(t, <<>>, FALSE)
             IN {[i \in 1..Len(ks) |-> [n |-> ks[i].n, blk |-> ks[i].blk, s |-> f[i]]] : f \in [1..Len(ks) -> ScriptChoices]}

\* ------------------------------------------------------------------ generator
Init == phase = "grow" /\ tree \in Leaves /\ script = <<>>
Grow(t) == /\ phase = "grow" /\ Depth(t) <= MaxDepth
           /\ tree' = t /\ UNCHANGED <<phase, script>>
WrapUnary == \E k \in Unary : Grow(Node(k, <<tree>>, <<0>>))
WrapSeq == \E sib \in T1 : Grow(Node("seq", <<tree, sib>>, <<>>)) \/ Grow(Node("seq", <<sib, tree>>, <<>>))
WrapIf == \E sib \in T1 \cup {Noop} : Grow(Node("if", <<tree, sib>>, <<0>>)) \/ (sib # Noop /\ Grow(Node("if", <<sib, tree>>, <<0>>)))
WrapPar == ~HasGroup(tree) /\ \E sib \in {x \in T1 : ~HasGroup(x)} :
              Grow(Node("par", <<tree, sib>>, <<0>>)) \/ Grow(Node("par", <<sib, tree>>, <<0>>))
WrapFE == ~HasGroup(tree) /\ ~HasBlindScript(tree) /\ \E v \in FEVariants : Grow(Node("foreach", <<tree>>, v))
Choose == /\ phase = "grow"
          /\ phase' = "run" /\ tree' = tree
          /\ script' \in Tables(tree)
Next == WrapUnary \/ WrapSeq \/ WrapIf \/ WrapPar \/ WrapFE \/ Choose
Spec == Init /\ [][Next]_vars

\* ------------------------------------------------------------------ meta-properties (checked on every run state)
Run == phase = "run"
E == Env(script, {}, <<>>)
res == Exec(tree, <<>>, S0, E)                                   \* L1 result of the case
res2 == Exec(tree, <<>>, S0, Env(script, {"dtd", "par"}, <<>>))   \* with restore modelled as PassData.become works today
l2d == res2.data # res.data
res3 == Exec(tree, <<>>, S0, Env(script, {"shallow"}, <<>>))       \* DoThenDecide's snapshot is a shallow copy
RootKey == << <<>>, -1 >>
RECURSIVE LeadingTrues(_)
LeadingTrues(s) == IF Len(s) = 0 \/ ~s[1] THEN 0 ELSE 1 + LeadingTrues(SubSeq(s, 2, Len(s)))
IsPrefix(a, b) == Len(a) <= Len(b) /\ SubSeq(b, 1, Len(a)) = a
Child(i, s) == Exec(tree.c[i], <<i>>, s, E)

\* a rejected DoThenDecide leaves circuit AND data (placement, both mappings, error, user keys) as they were;
\* an accepted one keeps the body's; the body ran exactly once either way
DTDRestores ==
  LET R == res IN
  (Run /\ tree.k = "dtd" /\ ~R.failed) =>
     LET r1 == Child(1, S0)  acc == Scripted(script, r1, RootKey)
     IN /\ R.log = r1.log
        /\ acc => (R.circ = r1.circ /\ R.data = r1.data)
        /\ ~acc => (R.circ = S0.circ /\ R.data = S0.data)
\* While runs its body exactly as many times as its script has leading TRUEs (and evaluates its predicate once more)
RECURSIVE WhileIter(_)
WhileIter(j) == IF j = 0 THEN S0 ELSE Child(1, Adv(WhileIter(j - 1), RootKey))
WhileCount ==
  LET R == res IN
  (Run /\ tree.k = "while" /\ ~R.failed) =>
     LET k == LeadingTrues(ScriptOf(script, RootKey))
     IN R = Adv(WhileIter(k), RootKey) /\ Count(R.pos, RootKey) = k + 1
RECURSIVE DoWhileIter(_)
DoWhileIter(j) == IF j = 0 THEN Child(1, S0) ELSE Child(1, Adv(DoWhileIter(j - 1), RootKey))
DoWhileCount ==
  LET R == res IN
  (Run /\ tree.k = "dowhile" /\ ~R.failed) =>
     LET k == LeadingTrues(ScriptOf(script, RootKey))
     IN R = Adv(DoWhileIter(k), RootKey) /\ Count(R.pos, RootKey) = k + 1
\* the body log of a sequence is the concatenation of its parts' logs
SeqConcat ==
  LET R == res IN
  (Run /\ tree.k = "seq") =>
     LET r1 == Child(1, S0)  r2 == Exec(tree.c[2], <<2>>, [r1 EXCEPT !.log = <<>>], E)
     IN IsPrefix(r1.log, R.log) /\ R.log = r1.log \o r2.log /\ R.circ = r2.circ /\ R.data = r2.data
\* IfThenElse runs exactly the branch its predicate dictates
IfOneBranch ==
  LET R == res IN
  (Run /\ tree.k = "if") =>
     LET b == Scripted(script, S0, RootKey)  taken == IF b THEN 1 ELSE 2
     IN R = Child(taken, Adv(S0, RootKey)) /\ \A e \in Range(SeqLog(R.log)) : e.n[1] = taken
\* ParallelDo: the result is one branch's circuit AND data; every branch ran completely
ParPicksABranch ==
  LET R == res IN
  (Run /\ tree.k = "par" /\ ~R.failed) =>
     LET BR == [b \in 1..Len(tree.c) |-> Child(b, [S0 EXCEPT !.log = <<>>])]
     IN /\ \E b \in 1..Len(tree.c) : R.circ = BR[b].circ /\ R.data = BR[b].data
        /\ Len(R.log) = 1 /\ R.log[1] = [b \in 1..Len(tree.c) |-> SeqLog(BR[b].log)]
\* ForEach: one chain and one block-data entry per selected op; unselected ops untouched; replaced ops keep their location;
\* the outer user keys / placement / mappings are not touched
FEShape ==
  LET R == res IN
  (Run /\ tree.k = "foreach" /\ ~R.failed) =>
     LET sel == {j \in 1..Len(Circ0) : Collect(tree.a[1], Circ0[j])} IN
     /\ Len(R.circ) = Len(Circ0)
     /\ \A j \in 1..Len(Circ0) : \/ R.circ[j] = Circ0[j]
                                 \/ (j \in sel /\ R.circ[j].b /\ R.circ[j].loc = Circ0[j].loc /\ R.circ[j] \in R.res)
     /\ tree.a[2] = 0 => \A j \in sel : R.circ[j] \in R.res
     /\ Len(R.data.fe) = 1 /\ Len(R.data.fe[1]) = Cardinality(sel)
     /\ Len(R.log) = 1 /\ Len(R.log[1]) = Cardinality(sel)
     /\ [R.data EXCEPT !.fe = <<>>, !.err = <<0, 1>>] = [S0.data EXCEPT !.err = <<0, 1>>]
\* trees without restore points: the circuit marks and the user key are the projection of the body log
RECURSIVE Restoring(_)
Restoring(t) == t.k \in {"dtd", "par", "foreach"} \/ \E i \in 1..Len(t.c) : Restoring(t.c[i])
LogProjection ==
  LET R == res IN
  (Run /\ ~Restoring(tree) /\ ~R.failed /\ ~Rich) =>
     LET log == SeqLog(R.log) IN
     /\ R.data.d = [i \in 1..Len(log) |-> log[i].id]
     /\ Len(R.circ) = Len(Circ0) + Len(log)
\* modelling state restore the way PassData.become works today (L2) changes nothing but the two mappings
RECURSIVE Strip(_)
Strip(d) == [d EXCEPT !.im = <<>>, !.fm = <<>>,
                      !.fe = [x \in 1..Len(d.fe) |-> [j \in 1..Len(d.fe[x]) |-> [dat |-> Strip(d.fe[x][j].dat), rep |-> d.fe[x][j].rep]]]]
L2OnlyMappings ==
  LET R == res IN
  Run => LET r2 == res2
         IN /\ r2.log = R.log /\ r2.circ = R.circ /\ r2.failed = R.failed /\ r2.pos = R.pos
            /\ Strip(r2.data) = Strip(R.data)
            /\ (~HasKind(tree, "dtd") /\ ~HasKind(tree, "par")) => r2.data = R.data
\* a shallow snapshot changes nothing but the value of the pre-existing cell, and only below a DoThenDecide; the store of
\* cell objects agrees with the data in both readings
RECURSIVE StripCell(_)
StripCell(d) == [d EXCEPT !.cell = InitCell, !.cr = 0,     \* (no tree of the enumeration has two ForEachBlockPasses)
                          !.fe = [x \in 1..Len(d.fe) |-> [j \in 1..Len(d.fe[x]) |-> [dat |-> StripCell(d.fe[x][j].dat), rep |-> d.fe[x][j].rep]]]]
ShallowOnlyCell ==
  LET R == res IN
  Run => LET r3 == res3
         IN /\ r3.log = R.log /\ r3.circ = R.circ /\ r3.failed = R.failed /\ r3.pos = R.pos
            /\ StripCell(r3.data) = StripCell(R.data)
            /\ ~HasKind(tree, "dtd") => r3.data = R.data
            /\ R.heap[R.data.cr] = R.data.cell /\ r3.heap[r3.data.cr] = r3.data.cell
\* every scripted evaluation is accounted for; a failure stops everything after it
Sanity ==
  LET R == res IN
  Run => /\ \A i \in 1..Len(R.pos) : \E j \in 1..Len(script) : script[j].n = R.pos[i][1]
         /\ (~HasKind(tree, "body")) => R.log = <<>>
         /\ IsPrefix(S0.pos, R.pos)

Export == Run => LET R == res IN PrintT(<<"CASE", ToJson([tree |-> tree, script |-> script, l2d |-> (res2.data # R.data), l2s |-> (res3.data # R.data), failed |-> R.failed])>>)
=============================================================================
