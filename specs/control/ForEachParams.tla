--------------------------- MODULE ForEachParams ---------------------------
(* C11: ForEachBlockPass and the PARAMETERS of the blocks it collects, on the exact domain (Monomial.tla).

   A CircuitGate operation carries its angles twice: inside the circuit embedded in its gate (the "template") and in
   the operation's own parameters; the operation's are the ones that count.  They agree right after a partitioner
   folded a region and differ when one template is appended several times with different angle sets, when new angles
   are loaded on the outer circuit (set_params) after blocking, and after a pickle round trip (one copy per distinct
   gate is serialised and CircuitGate equality ignores angles, so same-shape blocks come back sharing the first one's
   template).

   PART 1 (L1, ValSpec): recorded executions of the real ForEachBlockPass are judged.  A case is
     [r (radixes), circ0 (the input as the pass saw it: op records of Monomial.tla, blocks as BLOCK ops whose inner ops
      carry the angles of the OPERATION), cf (collection filter: 0 blocks only, 4 width >= 2), rf (0 always, 1 never),
      body (0 identity, 1 zero the last angle, 2 append Z on local qudit 0), calc,
      recv (per body execution, in collection order: the op records of the circuit the body was handed),
      out (final circuit), err (reported data.error, <<num, den>> rounded to 1/4096)]
   Clauses (every failing one is reported, the first is the verdict):
     foreach-body-count            the body did not run once per collected operation
     foreach-body-input-differs    some body was handed a circuit that is not (Monomial.Sem, up to a global phase) the
                                   collected operation
     foreach-writeback-result      the final circuit is not the input with exactly the accepted results in place
     foreach-error-bound-too-small calculate_error_bound: the circuit changed (on this domain every change is at
                                   distance >= 0.129: phases are multiples of pi/8 on 8 basis states) but the reported
                                   error is below 1/16

   PART 2 (L2, GenSpec): a model of how the two parameter sets of a block come apart (build with own / shared
   template, set_params after blocking, pickle on submission) whose behaviours TLC enumerates; every reachable "run"
   state is exported as a case; the history flags say in which of them the mechanism matters
   (stale: some collected block's stored angles differ from its own; matters: the stale template also has another
   semantics).  The harness builds exactly those circuits, checks the stored-vs-own pattern the pass really saw
   against the model (DRIFT) and runs them.                                                                        *)
EXTENDS Monomial, Json, IOUtils

VARIABLE st

\* ------------------------------------------------------------------ shared: the template and the bodies
Op(g, p, loc) == [g |-> g, p |-> p, loc |-> loc, t |-> <<[idx |-> 0, ph |-> 0]>>, ops |-> <<>>]
\* two-qubit template RZ(a) q0 ; RY(b) q1 ; CX(0,1) ; RZ(c) q1   (a, c in units of pi/4; b a multiple of 4 = of pi)
Template(a) == << Op("RZ", <<a[1]>>, <<0>>), Op("RY", <<a[2]>>, <<1>>), Op("CX", <<0>>, <<0, 1>>), Op("RZ", <<a[3]>>, <<1>>) >>
AngleSets == << <<1, 4, 2>>, <<3, 0, 7>>, <<0, 4, 5>> >>
Zero == <<0, 0, 0>>
Angles(i) == IF i = 0 THEN Zero ELSE AngleSets[i]
Parameterised == {"RZ", "RY", "U1", "RX"}
Body(b, ops) ==
  CASE b = 0 -> ops
    [] b = 1 -> LET P == {i \in 1..Len(ops) : ops[i].g \in Parameterised}
                IN IF P = {} THEN ops
                   ELSE LET m == CHOOSE i \in P : \A j \in P : j <= i IN [ops EXCEPT ![m].p = <<0>>]
    [] b = 2 -> Append(ops, Op("Z", <<0>>, <<0>>))
Same(A, B) == SameUpToPhase(A, B)

\* ------------------------------------------------------------------ PART 1: validation
Cases == JsonDeserialize(IOEnv.TRACE_FILE)
C == Cases[st]
Collected(cf, op) == IF cf = 0 THEN op.g = "BLOCK" ELSE Len(op.loc) >= 2
Sel == SelectSeq([j \in 1..Len(C.circ0) |-> j], LAMBDA j : Collected(C.cf, C.circ0[j]))
LocalR(op) == [i \in 1..Len(op.loc) |-> C.r[op.loc[i] + 1]]
Inner(op) == IF op.g = "BLOCK" THEN op.ops ELSE <<[op EXCEPT !.loc = [i \in 1..Len(op.loc) |-> i - 1]]>>
InputOK(i) == LET op == C.circ0[Sel[i]] IN Same(SemTable(C.recv[i], LocalR(op)), SemTable(Inner(op), LocalR(op)))
Expected == [j \in 1..Len(C.circ0) |->
               IF C.rf = 0 /\ \E i \in 1..Len(Sel) : Sel[i] = j
               THEN [C.circ0[j] EXCEPT !.g = "BLOCK", !.ops = Body(C.body, Inner(C.circ0[j]))] ELSE C.circ0[j]]
Changed == ~Same(SemTable(C.out, C.r), SemTable(C.circ0, C.r))
Failing ==
  IF Len(C.recv) # Len(Sel) THEN <<"foreach-body-count">> ELSE
  (IF \E i \in 1..Len(Sel) : ~InputOK(i) THEN <<"foreach-body-input-differs">> ELSE <<>>)
  \o (IF ~Same(SemTable(C.out, C.r), SemTable(Expected, C.r)) THEN <<"foreach-writeback-result">> ELSE <<>>)
  \o (IF C.calc /\ Changed /\ C.err[1] * 16 < C.err[2] THEN <<"foreach-error-bound-too-small">> ELSE <<>>)
ValInit == st \in 1..Len(Cases)
ValNext == UNCHANGED st
ValSpec == ValInit /\ [][ValNext]_st
Check == LET f == Failing IN IF f = <<>> THEN TRUE ELSE PrintT(<<"VERDICT", st, 0>> \o f)

\* ------------------------------------------------------------------ PART 2: how op angles and stored angles come apart
\* block = [op |-> index of the angle set of the operation, sto |-> index of the angle set stored in its gate (0: zeros)]
CONSTANT MaxBlocks
Blk(o, s) == [op |-> o, sto |-> s]
GenInit == st = [ph |-> "build", blocks |-> <<>>, hist |-> <<>>, body |-> 0, cf |-> 0, rf |-> 0, calc |-> FALSE]
Room == st.ph = "build" /\ Len(st.blocks) < MaxBlocks
\* a block folded with its own angles (what a partitioner produces)
AddOwn(a) == Room /\ st' = [st EXCEPT !.blocks = Append(@, Blk(a, a)), !.hist = Append(@, [k |-> "own", a |-> a])]
\* the ONE template gate (built with zero angles) appended once more, with angle set a
AddShared(a) == Room /\ st' = [st EXCEPT !.blocks = Append(@, Blk(a, 0)), !.hist = Append(@, [k |-> "shared", a |-> a])]
\* circuit.set_params after blocking: every operation gets new angles, what the gates store stays
Retune == /\ st.ph = "build" /\ Len(st.blocks) > 0
          /\ st' = [st EXCEPT !.ph = "tuned", !.blocks = [i \in 1..Len(@) |-> Blk((@[i].op % 3) + 1, @[i].sto)],
                              !.hist = Append(@, [k |-> "retune", a |-> 0])]
\* submission to the runtime pickles the circuit: all blocks have the same shape, so one gate (the first) is kept
Pickled(bs) == [i \in 1..Len(bs) |-> Blk(bs[i].op, bs[1].sto)]
Submit(b, cf, rf, calc) ==
  /\ st.ph \in {"build", "tuned"} /\ Len(st.blocks) > 0
  /\ st' = [st EXCEPT !.ph = "run", !.blocks = Pickled(@), !.body = b, !.cf = cf, !.rf = rf, !.calc = calc]
GenNext == \/ \E a \in 1..Len(AngleSets) : AddOwn(a) \/ AddShared(a)
           \/ Retune
           \/ \E b \in 0..2, cf \in {0, 4}, rf \in {0, 1}, calc \in BOOLEAN : Submit(b, cf, rf, calc)
GenSpec == GenInit /\ [][GenNext]_st

T2(i) == SemTable(Template(Angles(i)), <<2, 2>>)
Stale == {i \in 1..Len(st.blocks) : st.blocks[i].sto # st.blocks[i].op}
Matters == {i \in Stale : ~Same(T2(st.blocks[i].sto), T2(st.blocks[i].op))}
\* what the property demands of the run, in the model's terms: block i's body receives Template(op angles); an
\* implementation that hands out the stored template is wrong exactly on Matters
GenTypeOK == /\ Len(st.blocks) <= MaxBlocks
             /\ \A i \in 1..Len(st.blocks) : st.blocks[i].op \in 1..Len(AngleSets) /\ st.blocks[i].sto \in 0..Len(AngleSets)
             /\ st.ph = "run" => \A i \in 1..Len(st.blocks) : st.blocks[i].sto = st.blocks[1].sto
\* the angle sets are pairwise distinguishable (otherwise Matters would be vacuous) and the bodies 1, 2 change the semantics
GenNonVacuous == /\ \A i, j \in 0..Len(AngleSets) : i # j => ~Same(T2(i), T2(j))
                 /\ \A i \in 1..Len(AngleSets) : \A b \in {1, 2} :
                       ~Same(SemTable(Body(b, Template(Angles(i))), <<2, 2>>), T2(i))
GenExport == st.ph = "run" =>
  PrintT(<<"CASE", ToJson([hist |-> st.hist, blocks |-> st.blocks, body |-> st.body, cf |-> st.cf, rf |-> st.rf, calc |-> st.calc,
                           stale |-> Cardinality(Stale), matters |-> Cardinality(Matters)])>>)
=============================================================================
