SPECIFICATION GenSpec
CONSTANTS
  MaxBlocks = 2
INVARIANTS
  GenTypeOK
  GenNonVacuous
  GenExport
CHECK_DEADLOCK FALSE
