---------------------------- MODULE ControlFlow ----------------------------
(* C11 (L1): recorded executions of the real control passes against the interpreter of ControlFlowInterp.

   One case = one pass tree run on the real passes (IfThenElsePass, WhileLoopPass, DoWhileLoopPass, DoThenDecide,
   ParallelDo, ForEachBlockPass, Workflow) with instrumented bodies and scripted predicates:
     [n, circ0, e0, tree, script, calc, berr,
      obs |-> [raised, log (body executions in the order they happened), circ (final circuit), data (final pass data)]]
   Verdict = first clause that fails:
     failure-not-propagated / unexpected-failure
     body-execution-order            the body log is not an interleaving the tree and the scripts allow
     foreach-body-count              a ForEach body did not run exactly once per selected op, on exactly that op
     circuit-not-restored-or-lost    (trees without ForEach) final circuit differs, per qudit
     foreach-writeback-position      accepted results do not sit where the originals sat (per-qudit sequences)
     foreach-untouched-op-changed    an op that was not selected, or whose result was rejected, changed
     passdata-not-restored-or-lost   user keys (incl. the deep value of the pre-existing mutable cell) / placement / gate set of the
                                     model / ForEach block data differ; 5th element "DoThenDecide:shallow-snapshot" when a
                                     shallow snapshot in DoThenDecide explains the observation (L2 variant)
     foreach-blockdata-order         block data are the expected ones but not in collection order
     foreach-error-formula           error # 1 - (1 - error_before)(1 - sum of errors of the replaced blocks), exact rationals
     mappings-not-restored           initial_mapping / final_mapping differ; the 5th element of the VERDICT line names the
                                     node kinds whose restore explains the observation when it is modelled the way
                                     PassData.become works (L2): "DoThenDecide", "ParallelDo", "DoThenDecide+ParallelDo",
                                     or "unexplained".
   NOT decided here: "the reported error is never smaller than the distance actually introduced" (needs a numeric
   distance); with calculate_error_bound the per-block errors are taken as observed and only the formula is checked.  *)
EXTENDS ControlFlowInterp, Json, IOUtils

Cases == JsonDeserialize(IOEnv.TRACE_FILE)
VARIABLES tid
C == Cases[tid]
O == C.obs

Final(l2) == Exec(C.tree, <<>>, Start(C.n, C.circ0, C.e0), Env(C.script, l2, C.berr))

\* ------------------------------------------------------------------ body log: some interleaving of the chains
NormE(e) == [n |-> e.n, id |-> e.id, blk |-> e.blk, saw |-> Range(e.saw)]
RECURSIVE Match(_, _, _, _, _)
Match(obs, i, log, g, cur) ==
  IF g > Len(log) THEN i = Len(obs) + 1
  ELSE LET seg == log[g] IN
       IF \A j \in 1..Len(seg) : cur[j] > Len(seg[j])
         THEN Match(obs, i, log, g + 1, IF g + 1 <= Len(log) THEN [j \in 1..Len(log[g + 1]) |-> 1] ELSE <<>>)
       ELSE IF i > Len(obs) THEN FALSE
       ELSE LET J == {j \in 1..Len(seg) : cur[j] <= Len(seg[j]) /\ seg[j][cur[j]] = NormE(obs[i])}
            IN IF J = {} THEN FALSE
               ELSE LET j == CHOOSE x \in J : TRUE IN Match(obs, i + 1, log, g, [cur EXCEPT ![j] = @ + 1])
LogOK(F) == Match(O.log, 1, F.log, 1, IF Len(F.log) >= 1 THEN [j \in 1..Len(F.log[1]) |-> 1] ELSE <<>>)
\* same entries with the same multiplicities?
CountIn(c, v) == Cardinality({j \in 1..Len(c) : c[j] = v})
SameBag(a, b) == \A v \in Range(a) \cup Range(b) : CountIn(a, v) = CountIn(b, v)
LogClause(F) ==
  LET o == [i \in 1..Len(O.log) |-> NormE(O.log[i])]  e == SeqLog(F.log)
      inFE(x) == SelectSeq(x, LAMBDA y : y.blk >= 0)
  IN IF ~SameBag(inFE(o), inFE(e)) THEN "foreach-body-count" ELSE "body-execution-order"

\* ------------------------------------------------------------------ circuit: per-qudit sequences
PerQ(c, q) == SelectSeq(c, LAMBDA o : q \in Range(o.loc))
CircOK(F) == Len(O.circ) = Len(F.circ) /\ \A q \in 0..C.n - 1 : PerQ(O.circ, q) = PerQ(F.circ, q)
CircClause(F) ==
  IF ~HasKind(C.tree, "foreach") THEN "circuit-not-restored-or-lost"
  ELSE IF SameBag(O.circ, F.circ) THEN "foreach-writeback-position"
  ELSE IF \E v \in Range(F.circ) \ F.res : CountIn(O.circ, v) # CountIn(F.circ, v) THEN "foreach-untouched-op-changed"
  ELSE "foreach-writeback-position"

\* ------------------------------------------------------------------ pass data
PKey(x) == <<x.d, x.k, x.pl, Range(x.saw0), Len(x.saw0), x.cell.l, x.cell.x, x.gs>>
ErrOf(x) == Norm(x.err[1], x.err[2])
BKey(b) == <<PKey(b.dat), b.rep, IF C.calc THEN <<0, 1>> ELSE ErrOf(b.dat)>>
Plain(o, e) == PKey(o) = PKey(e)
ErrEq(o, e) == ErrOf(o) = e.err
MapsEq(o, e) == o.im = e.im /\ o.fm = e.fm
BDPlain(o, e) == BKey(o) = BKey(e)
FEShape(D) == Len(O.data.fe) = Len(D.fe) /\ \A x \in 1..Len(D.fe) : Len(O.data.fe[x]) = Len(D.fe[x])
FEPlain(D) == \A x \in 1..Len(D.fe) : \A j \in 1..Len(D.fe[x]) : BDPlain(O.data.fe[x][j], D.fe[x][j])
\* the same block data in another order?
FEPermuted(D) == \A x \in 1..Len(D.fe) :
                   SameBag([j \in 1..Len(D.fe[x]) |-> BKey(O.data.fe[x][j])], [j \in 1..Len(D.fe[x]) |-> BKey(D.fe[x][j])])
FEMaps(D) == \A x \in 1..Len(D.fe) : \A j \in 1..Len(D.fe[x]) : MapsEq(O.data.fe[x][j].dat, D.fe[x][j].dat)
AllMaps(D) == MapsEq(O.data, D) /\ FEMaps(D)
\* top-level error: exact, or (calculate_error_bound: inputs are rounded to 1/4096) within 1/512
TopErrOK(D) ==
  IF ~C.calc THEN ErrEq(O.data, D)
  ELSE LET diff == RSub(Norm(O.data.err[1], O.data.err[2]), D.err) IN Abs(diff[1]) * 512 <= diff[2]

Explain ==
  IF AllMaps(Final({"dtd"}).data) THEN "DoThenDecide"
  ELSE IF AllMaps(Final({"par"}).data) THEN "ParallelDo"
  ELSE IF AllMaps(Final({"dtd", "par"}).data) THEN "DoThenDecide+ParallelDo"
  ELSE "unexplained"

\* user keys / placement / model / block data: does the shallow-snapshot variant of DoThenDecide explain the observation?
PlainAll(D) == Plain(O.data, D) /\ Len(O.data.fe) = Len(D.fe) /\ FEShape(D) /\ FEPlain(D)
ExplainP == IF PlainAll(Final({"shallow"}).data) THEN "DoThenDecide:shallow-snapshot" ELSE ""

RECURSIVE NestedGroups(_, _)
NestedGroups(t, inside) ==
  LET grp == t.k \in {"par", "foreach"} IN
  (grp /\ inside) \/ \E i \in 1..Len(t.c) : NestedGroups(t.c[i], inside \/ grp)

Verdict ==
  IF NestedGroups(C.tree, FALSE) THEN <<"unsupported-nested-groups", "">> ELSE
  LET F == Final({})  D == F.data IN
  IF F.failed \/ O.raised
    THEN (IF F.failed = O.raised THEN <<"ok", "">>
          ELSE IF F.failed THEN <<"failure-not-propagated", "">> ELSE <<"unexpected-failure", "">>)
  ELSE IF ~LogOK(F) THEN <<LogClause(F), "">>
  ELSE IF ~CircOK(F) THEN <<CircClause(F), "">>
  ELSE IF ~Plain(O.data, D) THEN <<"passdata-not-restored-or-lost", ExplainP>>
  ELSE IF Len(O.data.fe) # Len(D.fe) THEN <<"passdata-not-restored-or-lost", "">>
  ELSE IF ~FEShape(D) THEN <<"foreach-body-count", "">>
  ELSE IF ~FEPlain(D) THEN <<IF FEPermuted(D) THEN "foreach-blockdata-order" ELSE "passdata-not-restored-or-lost", ExplainP>>
  ELSE IF ~TopErrOK(D) THEN <<IF HasKind(C.tree, "foreach") THEN "foreach-error-formula" ELSE "passdata-not-restored-or-lost", "">>
  ELSE IF ~AllMaps(D) THEN <<"mappings-not-restored", Explain>>
  ELSE <<"ok", "">>

Init == tid \in 1..Len(Cases)
Next == UNCHANGED tid
Spec == Init /\ [][Next]_tid
Check == LET v == Verdict IN IF v[1] = "ok" THEN TRUE ELSE PrintT(<<"VERDICT", tid, 0, v[1], v[2]>>)
=============================================================================
