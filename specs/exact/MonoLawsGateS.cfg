SPECIFICATION SpecTables
INVARIANT GateLaws
CONSTANTS
  MaxDim = 3
  PhaseGen = 6
  MaxOps = -1
  Regs <- NoRegs
CHECK_DEADLOCK FALSE
