------------------------------ MODULE GateLib ------------------------------
(* C18: every library gate obeys the gate contract -- decided on the exact (monomial) domain.

   Every case is one observation of the implementation: a construction request (a descriptor tree:
   named base gates, constant tables, and the composing constructors applied to them), what the
   constructed object advertised (dim / radixes / num_qudits / num_params), and its matrices read off
   as (idx, ph, within) records.  This module recomputes what the matrices have to be from the gate
   library of Monomial.tla (named gates, absolute phase) and from the algebra of Monomial.tla
   (Inverse, Power, Controlled, Embedded, SemTable) applied to the *observed* tables of the parts,
   and names the first clause that disagrees.

   Clauses: dimension, named-gate-matrix, expression-backend, composition, inverse, eq-hash,
            unitary_and_grad-value, qiskit-name.   ("spec-inconsistent" is not a clause: it says that two definitions
            of this module disagree with each other, and the harness reports it as a machinery failure.) *)
EXTENDS Naturals, Integers, Sequences, FiniteSets, TLC, Json, IOUtils, Monomial

Cases == JsonDeserialize(IOEnv.TRACE_FILE)
VARIABLES tid
C == Cases[tid]

ToSet(s) == {s[i] : i \in 1..Len(s)}

\* ------------------------------------------------------------ descriptors
\* d = [k, name, p, r, t, n, cr, levels, maps, tag, fz, sub, locs, given, sel]
\*   k = "base"       : library gate `name` with constructor/parameter list p on radixes r; t = its observed table
\*                      (absolute phase) at the parameters used; name = "TABLE": a constant gate built from table t
\*   k = "dagger" | "tagged" | "frozen" | "power" (n) | "controlled" (cr, levels) | "embedded" (r = outer radixes, maps)
\*                    : one child in sub
\*   k = "circuit"    : children sub[i] at locations locs[i] of a circuit on radixes r
\*   k = "vlg"        : VariableLocationGate of the one child over the candidate locations locs; given = the radixes argument
\*                      (<<>> = left to the constructor to infer); sel = 0-based index of the location the (one-hot) location
\*                      parameters select
\*   name = "OTHER"   : a gate outside the named library (no definition of its matrix here): tag = what was constructed,
\*                      r / n = the radixes / number of parameters that construction has to advertise, t = its observed table

\* radixes VariableLocationGate(gate, locations) has to infer: qudit q has the radix the gate has at the position q takes in a location
InferRad(ir, locs) ==
  LET qs == UNION {Range(locs[j]) : j \in 1..Len(locs)}
  IN [q \in 1..Cardinality(qs) |->
        LET j == CHOOSE jj \in 1..Len(locs) : \E i \in 1..Len(locs[jj]) : locs[jj][i] = q - 1
            i == CHOOSE ii \in 1..Len(locs[j]) : locs[j][ii] = q - 1
        IN ir[i]]
RECURSIVE Rad(_)
Rad(d) == CASE d.k = "base" -> d.r
            [] d.k = "controlled" -> d.cr \o Rad(d.sub[1])
            [] d.k = "embedded" -> d.r
            [] d.k = "circuit" -> d.r
            [] d.k = "vlg" -> IF Len(d.given) > 0 THEN d.given ELSE InferRad(Rad(d.sub[1]), d.locs)
            [] OTHER -> Rad(d.sub[1])

\* ------------------------------------------------------------ a part placed on some qudits of a wider register
\* The qudit permutation PermutationMatrix.from_qudit_location(n, radix, loc) denotes (the definition C20 judges that function by:
\* Graph.tla PermVerdict = Monomial.tla GateN "PERM"): qudit loc[i] moves to position i, the rest follow in increasing order.
\* With one radix it is GateTable("PERM", loc, r); with mixed radixes the register it maps into has the permuted radixes.
FullPerm(loc, n) == loc \o SelectSeq([i \in 1..n |-> i - 1], LAMBDA q : \A j \in 1..Len(loc) : loc[j] # q)
QuditPerm(loc, r) ==
  LET full == FullPerm(loc, Len(r))
      pr == [i \in 1..Len(r) |-> r[full[i] + 1]]
  IN IF \A i \in 1..Len(r) : r[i] = r[1] THEN GateTable("PERM", loc, r)
     ELSE TLCEval([b \in 1..Dim(r) |-> LET dg == Digits(b - 1, r)
                                       IN [idx |-> Index([i \in 1..Len(r) |-> dg[full[i] + 1]], pr), ph |-> 0]])
\* table T acting on the qudits loc (in that order) of a register with radixes r: bring them to the front, apply T (x) I, take them back
Conjugated(T, loc, r) ==
  LET P == QuditPerm(loc, r) IN Compose(Inverse(P), Compose(Kron(T, Ident(Dim(r) \div Len(T))), P))
\* the same thing said with the circuit semantics: the one-operation circuit with T at loc
Placed(T, loc, r) == SemTable(<<[g |-> "TABLE", p |-> <<0>>, loc |-> loc, t |-> T, ops |-> <<>>]>>, r)

RECURSIVE Eval(_)
Eval(d) ==
  CASE d.k = "base" -> d.t
    [] d.k = "dagger" -> Inverse(Eval(d.sub[1]))
    [] d.k = "power" -> Power(Eval(d.sub[1]), d.n)
    [] d.k = "tagged" -> Eval(d.sub[1])
    [] d.k = "frozen" -> Eval(d.sub[1])          \* the child's table is observed at the full parameter vector
    [] d.k = "controlled" -> Controlled(Eval(d.sub[1]), d.cr, d.levels, Rad(d.sub[1]))
    [] d.k = "embedded" -> Embedded(Eval(d.sub[1]), Rad(d.sub[1]), d.r, d.maps)
    [] d.k = "circuit" ->
         SemTable([i \in 1..Len(d.sub) |-> [g |-> "TABLE", p |-> <<0>>, loc |-> d.locs[i], t |-> Eval(d.sub[i]), ops |-> <<>>]], d.r)
    \* one-hot location parameters: the gate *is* its part at the selected location
    [] d.k = "vlg" -> Conjugated(Eval(d.sub[1]), d.locs[d.sel + 1], Rad(d))

\* the two ways of saying "T at loc" agree wherever this module uses them (checked on every case, not assumed)
RECURSIVE SpecOK(_)
SpecOK(d) == /\ \A i \in 1..Len(d.sub) : SpecOK(d.sub[i])
             /\ d.k = "vlg" => LET T == Eval(d.sub[1]) IN SameExactly(Conjugated(T, d.locs[d.sel + 1], Rad(d)), Placed(T, d.locs[d.sel + 1], Rad(d)))

\* number of parameters a construction has to advertise
RECURSIVE NParams(_)
NParams(d) ==
  CASE d.k = "base" -> IF d.name = "TABLE" \/ d.name = "OTHER" THEN d.n ELSE ParamArity(d.name, d.p)
    [] d.k = "frozen" -> NParams(d.sub[1]) - Len(d.fz)
    [] d.k = "circuit" -> LET RECURSIVE S(_) S(i) == IF i = 0 THEN 0 ELSE S(i - 1) + NParams(d.sub[i]) IN S(Len(d.sub))
    [] d.k = "vlg" -> NParams(d.sub[1]) + Len(d.locs)           \* the part's parameters, then one parameter per location
    [] OTHER -> NParams(d.sub[1])

\* what identifies a construction: everything but the observed tables.  Frozen-parameter maps are sets (a dict has no
\* order); control level lists are kept as given (weaker reading: [0,2] and [2,0] are not claimed to be "the same
\* construction", so either answer of == is accepted for them).
RECURSIVE Norm(_)
Norm(d) == [k |-> d.k, name |-> d.name, p |-> IF d.k = "base" /\ d.name # "TABLE" THEN d.cp ELSE <<>>,
            t |-> IF d.k = "base" /\ d.name = "TABLE" THEN d.t ELSE <<>>,
            r |-> d.r, n |-> d.n, cr |-> d.cr,
            levels |-> d.levels, maps |-> d.maps, tag |-> d.tag,
            fz |-> ToSet(d.fz), locs |-> d.locs, given |-> d.given, sub |-> [i \in 1..Len(d.sub) |-> Norm(d.sub[i])]]

\* ------------------------------------------------------------ clauses
Adv == C.adv        \* [dim, nq, np, radixes, urows, ucols, uradixes, g0, g1, g2]  (g* = shape of get_grad, -1 when not differentiable)

DimensionOK(r, np) ==
  /\ Adv.radixes = r /\ Adv.nq = Len(r) /\ Adv.dim = Dim(r) /\ Adv.np = np
  /\ Adv.urows = Dim(r) /\ Adv.ucols = Dim(r) /\ Adv.uradixes = r
  /\ (Adv.g0 = -1 \/ np = 0 \/ (Adv.g0 = np /\ Adv.g1 = Dim(r) /\ Adv.g2 = Dim(r)))

\* get_unitary_and_grad(p): C.has_ug = it answered (FALSE: it raised NotImplementedError, i.e. the gate declares no gradient),
\* C.obs_ug = its unitary part, C.ug = the shape of its gradient part (padded with -1 to three entries).  The unitary part is
\* the table get_unitary has to give; the gradient part has one (dim x dim) slice per parameter.  Weaker reading for gates
\* without parameters: only "no slices" is required (len = 0; constant gates answer np.array([]), of shape (0,)).
UgOK(exp, r, np) ==
  C.has_ug => /\ ObsOK(C.obs_ug) /\ SameExactly(ObsTable(C.obs_ug), exp)
              /\ IF np = 0 THEN C.ug[1] = 0 ELSE C.ug = <<np, Dim(r), Dim(r)>>
\* ... and its gradient part is the array get_grad(p) gives: C.gg_diff = max |get_unitary_and_grad(p)[1] - get_grad(p)| in units of
\* 1e-9 as measured by the harness (-1: not comparable).  Gradients are not on the exact domain; this compares two answers of the
\* implementation with each other, within GradTol, and says nothing about either being the derivative.
GradTol == 100
GradSameOK(np) == (C.has_ug /\ np > 0) => (C.gg_diff >= 0 /\ C.gg_diff <= GradTol)
\* Aliasing: for the composing constructors under which the gradient slices of the part reappear through an injective linear map
\* (dagger, tag, control, embedding, placement at a location: slices 1..NParams(part) of the gate are images of the part's slices;
\* frozen parameters: a sub-family of them), two slices of the gate may be the same matrix only if the part's slices are.
\* C.ug_eq / d.eq = pairs <<i, j>> (0-based, i < j) of equal slices of the gate's / the part's gradient, as observed.
AliasOK(d) ==
  IF ~C.has_ug \/ Len(d.sub) # 1 THEN TRUE
  ELSE LET m == NParams(d.sub[1])
           mine == {pr \in ToSet(C.ug_eq) : pr[2] < m}
       IN CASE d.k \in {"dagger", "tagged", "controlled", "embedded", "vlg"} -> mine \subseteq ToSet(d.sub[1].eq)
            [] d.k = "frozen" -> (d.sub[1].eq = <<>>) => (C.ug_eq = <<>>)
            [] OTHER -> TRUE

NamedVerdict ==
  LET exp == GateTable(C.name, C.p, C.r) IN
  IF ~DimensionOK(C.r, ParamArity(C.name, C.p)) THEN "dimension"
  ELSE IF ~ObsOK(C.obs) \/ ~SameExactly(ObsTable(C.obs), exp) THEN "named-gate-matrix"
  ELSE IF C.has_x /\ (~ObsOK(C.obs_x) \/ ~SameExactly(ObsTable(C.obs_x), exp)) THEN "expression-backend"
  ELSE IF ~UgOK(exp, C.r, ParamArity(C.name, C.p)) THEN "unitary_and_grad-value"
  ELSE IF ~GradSameOK(ParamArity(C.name, C.p)) THEN "unitary_and_grad-value:gradient-differs-from-get_grad"
  ELSE "ok"

\* a constant gate built from a table (ConstantUnitaryGate, PermutationGate via its own name, IdentityGate ...)
ComposedVerdict ==
  LET d == C.d  exp == Eval(d) IN
  IF ~SpecOK(d) THEN "spec-inconsistent"
  ELSE IF ~DimensionOK(Rad(d), NParams(d)) THEN "dimension"
  ELSE IF ~ObsOK(C.obs) \/ ~SameExactly(ObsTable(C.obs), exp) THEN "composition"
  ELSE IF ~UgOK(exp, Rad(d), NParams(d)) THEN "unitary_and_grad-value"
  ELSE IF ~GradSameOK(NParams(d)) THEN "unitary_and_grad-value:gradient-differs-from-get_grad"
  ELSE IF ~AliasOK(d) THEN "unitary_and_grad-value:gradient-slices-aliased"
  ELSE "ok"

\* gate.get_inverse() evaluated at get_inverse_params(p), composed with the gate at p, is the identity
InverseVerdict ==
  IF ~ObsOK(C.obs) \/ ~ObsOK(C.obs_inv) THEN "inverse"
  ELSE IF Len(C.obs) # Len(C.obs_inv) THEN "inverse"
  ELSE IF ~SameExactly(Compose(ObsTable(C.obs_inv), ObsTable(C.obs)), Ident(Len(C.obs))) THEN "inverse"
  ELSE IF ~SameExactly(Compose(ObsTable(C.obs), ObsTable(C.obs_inv)), Ident(Len(C.obs))) THEN "inverse"
  ELSE "ok"

\* observed: eq_ab, eq_ba, hash_eq for two constructions d1, d2 (tables t1, t2 observed at the same parameter point)
EqHashVerdict ==
  LET same == Norm(C.d1) = Norm(C.d2)
      differ == Rad(C.d1) # Rad(C.d2) \/ ~SameExactly(ObsTable(C.t1), ObsTable(C.t2))
  IN IF same /\ ~(C.eq_ab /\ C.eq_ba) THEN "eq-hash:equal-constructions-compare-unequal"
     ELSE IF C.eq_ab # C.eq_ba THEN "eq-hash:asymmetric"
     ELSE IF differ /\ C.eq_ab THEN "eq-hash:different-gates-compare-equal"
     ELSE IF C.eq_ab /\ ~C.hash_eq THEN "eq-hash:equal-gates-hash-differently"
     ELSE "ok"

\* Qiskit's matrix for the same name (qubit order reversed by the harness), monomial names only
QiskitVerdict ==
  IF ~ObsOK(C.obs) \/ ~SameExactly(ObsTable(C.obs), GateTable(C.name, C.p, C.r)) THEN "qiskit-name" ELSE "ok"

Verdict ==
  CASE C.kind = "named" -> NamedVerdict
    [] C.kind = "composed" -> ComposedVerdict
    [] C.kind = "inverse" -> InverseVerdict
    [] C.kind = "eqhash" -> EqHashVerdict
    [] C.kind = "qiskit" -> QiskitVerdict

Init == tid \in 1..Len(Cases)
Next == UNCHANGED tid
Spec == Init /\ [][Next]_tid
Check == LET v == Verdict IN IF v = "ok" THEN TRUE ELSE PrintT(<<"VERDICT", tid, 0, v>>)
=============================================================================
