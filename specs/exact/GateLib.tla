------------------------------ MODULE GateLib ------------------------------
(* C18: every library gate obeys the gate contract -- decided on the exact (monomial) domain.

   Every case is one observation of the implementation: a construction request (a descriptor tree:
   named base gates, constant tables, and the composing constructors applied to them), what the
   constructed object advertised (dim / radixes / num_qudits / num_params), and its matrices read off
   as (idx, ph, within) records.  This module recomputes what the matrices have to be from the gate
   library of Monomial.tla (named gates, absolute phase) and from the algebra of Monomial.tla
   (Inverse, Power, Controlled, Embedded, SemTable) applied to the *observed* tables of the parts,
   and names the first clause that disagrees.

   Clauses: dimension, named-gate-matrix, expression-backend, composition, inverse, eq-hash,
            unitary_and_grad-value, qiskit-name. *)
EXTENDS Naturals, Integers, Sequences, FiniteSets, TLC, Json, IOUtils, Monomial

Cases == JsonDeserialize(IOEnv.TRACE_FILE)
VARIABLES tid
C == Cases[tid]

ToSet(s) == {s[i] : i \in 1..Len(s)}

\* ------------------------------------------------------------ descriptors
\* d = [k, name, p, r, t, n, cr, levels, maps, tag, fz, sub, locs]
\*   k = "base"       : library gate `name` with constructor/parameter list p on radixes r; t = its observed table
\*                      (absolute phase) at the parameters used; name = "TABLE": a constant gate built from table t
\*   k = "dagger" | "tagged" | "frozen" | "power" (n) | "controlled" (cr, levels) | "embedded" (r = outer radixes, maps)
\*                    : one child in sub
\*   k = "circuit"    : children sub[i] at locations locs[i] of a circuit on radixes r
RECURSIVE Rad(_)
Rad(d) == CASE d.k = "base" -> d.r
            [] d.k = "controlled" -> d.cr \o Rad(d.sub[1])
            [] d.k = "embedded" -> d.r
            [] d.k = "circuit" -> d.r
            [] OTHER -> Rad(d.sub[1])

RECURSIVE Eval(_)
Eval(d) ==
  CASE d.k = "base" -> d.t
    [] d.k = "dagger" -> Inverse(Eval(d.sub[1]))
    [] d.k = "power" -> Power(Eval(d.sub[1]), d.n)
    [] d.k = "tagged" -> Eval(d.sub[1])
    [] d.k = "frozen" -> Eval(d.sub[1])          \* the child's table is observed at the full parameter vector
    [] d.k = "controlled" -> Controlled(Eval(d.sub[1]), d.cr, d.levels, Rad(d.sub[1]))
    [] d.k = "embedded" -> Embedded(Eval(d.sub[1]), Rad(d.sub[1]), d.r, d.maps)
    [] d.k = "circuit" ->
         SemTable([i \in 1..Len(d.sub) |-> [g |-> "TABLE", p |-> <<0>>, loc |-> d.locs[i], t |-> Eval(d.sub[i]), ops |-> <<>>]], d.r)

\* number of parameters a construction has to advertise
RECURSIVE NParams(_)
NParams(d) ==
  CASE d.k = "base" -> IF d.name = "TABLE" \/ d.name = "OTHER" THEN d.n ELSE ParamArity(d.name, d.p)
    [] d.k = "frozen" -> NParams(d.sub[1]) - Len(d.fz)
    [] d.k = "circuit" -> LET RECURSIVE S(_) S(i) == IF i = 0 THEN 0 ELSE S(i - 1) + NParams(d.sub[i]) IN S(Len(d.sub))
    [] OTHER -> NParams(d.sub[1])

\* what identifies a construction: everything but the observed tables.  Frozen-parameter maps are sets (a dict has no
\* order); control level lists are kept as given (weaker reading: [0,2] and [2,0] are not claimed to be "the same
\* construction", so either answer of == is accepted for them).
RECURSIVE Norm(_)
Norm(d) == [k |-> d.k, name |-> d.name, p |-> IF d.k = "base" /\ d.name # "TABLE" THEN d.cp ELSE <<>>,
            t |-> IF d.k = "base" /\ d.name = "TABLE" THEN d.t ELSE <<>>,
            r |-> d.r, n |-> d.n, cr |-> d.cr,
            levels |-> d.levels, maps |-> d.maps, tag |-> d.tag,
            fz |-> ToSet(d.fz), locs |-> d.locs, sub |-> [i \in 1..Len(d.sub) |-> Norm(d.sub[i])]]

\* ------------------------------------------------------------ clauses
Adv == C.adv        \* [dim, nq, np, radixes, urows, ucols, uradixes, g0, g1, g2]  (g* = shape of get_grad, -1 when not differentiable)

DimensionOK(r, np) ==
  /\ Adv.radixes = r /\ Adv.nq = Len(r) /\ Adv.dim = Dim(r) /\ Adv.np = np
  /\ Adv.urows = Dim(r) /\ Adv.ucols = Dim(r) /\ Adv.uradixes = r
  /\ (Adv.g0 = -1 \/ np = 0 \/ (Adv.g0 = np /\ Adv.g1 = Dim(r) /\ Adv.g2 = Dim(r)))

NamedVerdict ==
  LET exp == GateTable(C.name, C.p, C.r) IN
  IF ~DimensionOK(C.r, ParamArity(C.name, C.p)) THEN "dimension"
  ELSE IF ~ObsOK(C.obs) \/ ~SameExactly(ObsTable(C.obs), exp) THEN "named-gate-matrix"
  ELSE IF C.has_x /\ (~ObsOK(C.obs_x) \/ ~SameExactly(ObsTable(C.obs_x), exp)) THEN "expression-backend"
  ELSE IF C.has_ug /\ (~ObsOK(C.obs_ug) \/ ~SameExactly(ObsTable(C.obs_ug), exp)) THEN "unitary_and_grad-value"
  ELSE "ok"

\* a constant gate built from a table (ConstantUnitaryGate, PermutationGate via its own name, IdentityGate ...)
ComposedVerdict ==
  LET d == C.d  exp == Eval(d) IN
  IF ~DimensionOK(Rad(d), NParams(d)) THEN "dimension"
  ELSE IF ~ObsOK(C.obs) \/ ~SameExactly(ObsTable(C.obs), exp) THEN "composition"
  ELSE IF C.has_ug /\ (~ObsOK(C.obs_ug) \/ ~SameExactly(ObsTable(C.obs_ug), exp)) THEN "unitary_and_grad-value"
  ELSE "ok"

\* gate.get_inverse() evaluated at get_inverse_params(p), composed with the gate at p, is the identity
InverseVerdict ==
  IF ~ObsOK(C.obs) \/ ~ObsOK(C.obs_inv) THEN "inverse"
  ELSE IF Len(C.obs) # Len(C.obs_inv) THEN "inverse"
  ELSE IF ~SameExactly(Compose(ObsTable(C.obs_inv), ObsTable(C.obs)), Ident(Len(C.obs))) THEN "inverse"
  ELSE IF ~SameExactly(Compose(ObsTable(C.obs), ObsTable(C.obs_inv)), Ident(Len(C.obs))) THEN "inverse"
  ELSE "ok"

\* observed: eq_ab, eq_ba, hash_eq for two constructions d1, d2 (tables t1, t2 observed at the same parameter point)
EqHashVerdict ==
  LET same == Norm(C.d1) = Norm(C.d2)
      differ == Rad(C.d1) # Rad(C.d2) \/ ~SameExactly(ObsTable(C.t1), ObsTable(C.t2))
  IN IF same /\ ~(C.eq_ab /\ C.eq_ba) THEN "eq-hash:equal-constructions-compare-unequal"
     ELSE IF C.eq_ab # C.eq_ba THEN "eq-hash:asymmetric"
     ELSE IF differ /\ C.eq_ab THEN "eq-hash:different-gates-compare-equal"
     ELSE IF C.eq_ab /\ ~C.hash_eq THEN "eq-hash:equal-gates-hash-differently"
     ELSE "ok"

\* Qiskit's matrix for the same name (qubit order reversed by the harness), monomial names only
QiskitVerdict ==
  IF ~ObsOK(C.obs) \/ ~SameExactly(ObsTable(C.obs), GateTable(C.name, C.p, C.r)) THEN "qiskit-name" ELSE "ok"

Verdict ==
  CASE C.kind = "named" -> NamedVerdict
    [] C.kind = "composed" -> ComposedVerdict
    [] C.kind = "inverse" -> InverseVerdict
    [] C.kind = "eqhash" -> EqHashVerdict
    [] C.kind = "qiskit" -> QiskitVerdict

Init == tid \in 1..Len(Cases)
Next == UNCHANGED tid
Spec == Init /\ [][Next]_tid
Check == LET v == Verdict IN IF v = "ok" THEN TRUE ELSE PrintT(<<"VERDICT", tid, 0, v>>)
=============================================================================
