----------------------------- MODULE CircuitSem -----------------------------
(* C06: circuit simulation equals the ordered product of its operations -- decided on the exact
   (monomial) domain, plus the purely discrete clauses on the flat parameter vector and on
   restricted iteration.

   One case = one circuit built by the harness through the public API from library gates
   (parameterised ones at monomial points), constant tables and nested CircuitGates, together with
   what the implementation returned for every observed call.  The op list `ops` carries what the
   harness *appended* (name, parameters in units of pi/4, location; BLOCK = nested circuit gate),
   listed in the order the implementation iterates the circuit; `alt` is the same list in the order of appending.

   Clauses: own-product, get_unitary, get_statevector, unitary_and_grad-value, explicit-params,
            param-vector, restricted-iteration. *)
EXTENDS Naturals, Integers, Sequences, FiniteSets, TLC, Json, IOUtils, Monomial

Cases == JsonDeserialize(IOEnv.TRACE_FILE)
VARIABLES tid
C == Cases[tid]

ToSet(s) == {s[i] : i \in 1..Len(s)}

\* ------------------------------------------------------------ flat parameter vector
RECURSIVE NP(_)
NP(op) == IF op.g = "BLOCK" THEN LET RECURSIVE S(_) S(i) == IF i = 0 THEN 0 ELSE S(i - 1) + NP(op.ops[i]) IN S(Len(op.ops))
          ELSE IF op.g = "TABLE" THEN 0 ELSE ParamArity(op.g, op.p)
RECURSIVE SumNP(_, _)
SumNP(ops, k) == IF k = 0 THEN 0 ELSE SumNP(ops, k - 1) + NP(ops[k])       \* parameters of the first k ops
NumParams(ops) == SumNP(ops, Len(ops))
\* the flat vector: every op's parameters in iteration order, nested circuit gates inlined
RECURSIVE FlatOp(_)
RECURSIVE FlatSeq(_, _)
FlatSeq(ops, k) == IF k = 0 THEN <<>> ELSE FlatSeq(ops, k - 1) \o FlatOp(ops[k])
FlatOp(op) == IF op.g = "BLOCK" THEN FlatSeq(op.ops, Len(op.ops))
              ELSE IF NP(op) = 0 THEN <<>> ELSE SubSeq(op.p, ParamOffset(op.g) + 1, Len(op.p))
Flat(ops) == FlatSeq(ops, Len(ops))
\* ParamSlice(ops, k) = positions (0-based, half-open) of op k's parameters in the flat vector
SliceLo(ops, k) == SumNP(ops, k - 1)
SliceHi(ops, k) == SumNP(ops, k)
\* ParamOwner(ops, i) = the op that owns flat parameter i (0-based)
ParamOwner(ops, i) == CHOOSE k \in 1..Len(ops) : SliceLo(ops, k) <= i /\ i < SliceHi(ops, k)
\* the same ops with their parameters replaced by the flat vector v
RECURSIVE Rebind(_, _)
RECURSIVE RebindSeq(_, _)
RebindSeq(ops, v) == TLCEval([k \in 1..Len(ops) |-> Rebind(ops[k], SubSeq(v, SliceLo(ops, k) + 1, SliceHi(ops, k)))])
Rebind(op, v) == IF op.g = "BLOCK" THEN [op EXCEPT !.ops = RebindSeq(op.ops, v)]
                 ELSE IF NP(op) = 0 THEN op
                 ELSE [op EXCEPT !.p = SubSeq(op.p, 1, ParamOffset(op.g)) \o v]
Remove(s, i) == SubSeq(s, 1, i) \o SubSeq(s, i + 2, Len(s))       \* drop 0-based position i
Replace(s, i, x) == [s EXCEPT ![i + 1] = x]

\* ------------------------------------------------------------ semantics clauses
Same(obs, T) == ObsOK(obs) /\ Len(obs) = Len(T) /\ \A b \in 1..Len(T) : obs[b].idx = T[b].idx /\ obs[b].ph = T[b].ph
Ops == C.ops
R == C.r

StateOK(T) ==     \* get_statevector on e^{i g} |b>
  \A i \in 1..Len(C.sv) : LET s == C.sv[i] IN
     s.within /\ s.idx = T[s.b + 1].idx /\ s.ph = NormPh(T[s.b + 1].ph + s.g)

SemVerdict(T) ==
  IF ~Same(C.own, T) THEN "own-product"
  ELSE IF ~Same(C.u, T) THEN "get_unitary"
  \* the ops in the order they were appended (before any fold) denote the same operator as in iteration order
  ELSE IF C.chk_alt /\ (LET TA == TLCEval(SemTable(C.alt, R)) IN ~SameExactly(TA, T)) THEN "get_unitary:iteration-is-not-a-program-order"
  ELSE IF ~StateOK(T) THEN "get_statevector"
  ELSE IF C.has_ug /\ ~Same(C.ug, T) THEN "unitary_and_grad-value"
  ELSE "ok"

\* ------------------------------------------------------------ parameter clauses
\* (every table is bound once with LET and materialised: TLC re-evaluates operator arguments that are given inline)
ParamVerdict ==
  LET N == NumParams(Ops)
      v == C.v2
      flat == Flat(Ops)
      ops2 == RebindSeq(Ops, v)
      T2 == TLCEval(SemTable(ops2, R))
      ops3 == RebindSeq(Ops, C.v3)
      T3 == TLCEval(SemTable(ops3, R))
      lo == TLCEval([k \in 1..Len(Ops) |-> SliceLo(Ops, k)])
      hi == TLCEval([k \in 1..Len(Ops) |-> SliceHi(Ops, k)])
      Owner(i) == CHOOSE k \in 1..Len(Ops) : lo[k] <= i /\ i < hi[k]
  IN
  IF C.nparams # N THEN "param-vector:num_params"
  ELSE IF C.params0 # flat THEN "param-vector:params"
  ELSE IF \E i \in 1..Len(C.locs) : LET l == C.locs[i]  k == Owner(i - 1) IN
            l.c # C.it[k].c \/ l.q \notin ToSet(C.it[k].loc) \/ l.k # (i - 1) - lo[k]
       THEN "param-vector:get_param_location"
  ELSE IF N = 0 THEN "ok"
  ELSE IF ~Same(C.u_exp, T2) THEN "explicit-params"
  ELSE IF C.has_ug /\ ~Same(C.ug_exp, T2) THEN "explicit-params:get_unitary_and_grad"
  ELSE IF ~(\A i \in 1..Len(C.sv_exp) : LET s == C.sv_exp[i] IN s.within /\ s.idx = T2[s.b + 1].idx /\ s.ph = NormPh(T2[s.b + 1].ph + s.g))
       THEN "explicit-params:get_statevector"
  ELSE IF C.params_untouched # flat THEN "explicit-params:stored-parameters-changed"
  \* after set_params(v)
  ELSE IF C.params_set # v THEN "param-vector:set_params"
  ELSE IF \E k \in 1..Len(Ops) : C.opp_set[k] # SubSeq(v, lo[k] + 1, hi[k]) THEN "param-vector:set_params"
  ELSE IF ~Same(C.u_set, T2) THEN "param-vector:set_params"
  ELSE IF C.getp # v THEN "param-vector:get_param"
  \* single set_param(i, x) calls, applied one after another
  ELSE IF ~(LET RECURSIVE Chk(_, _)
                Chk(j, cur) == IF j > Len(C.setp) THEN cur = C.v3
                               ELSE LET nx == Replace(cur, C.setp[j].i, C.setp[j].x) IN C.setp[j].after = nx /\ Chk(j + 1, nx)
            IN Chk(1, v)) THEN "param-vector:set_param"
  ELSE IF C.chk3 /\ ~Same(C.u_setp, T3) THEN "param-vector:set_param"
  \* freeze_param(i) on a copy holding v3
  ELSE IF C.frz.i >= 0 /\ (C.frz.nparams # N - 1 \/ C.frz.params # Remove(C.v3, C.frz.i)) THEN "param-vector:freeze_param"
  ELSE IF C.frz.i >= 0 /\ ~Same(C.frz.u, T3) THEN "param-vector:freeze_param"
  ELSE IF C.frz.i >= 0 /\ C.frz.it # C.it THEN "param-vector:freeze_param"
  ELSE "ok"

\* ------------------------------------------------------------ restricted iteration
\* grid = C.it: sequence of [c, loc] (cycle index and location of every op, from the default operations_with_cycles())
\* a query: reg = sequence of [q, lo, hi] (inclusive cycle interval per qudit), excl, rev, got = sequence of [c, loc]
InReg(reg, q, c) == \E i \in 1..Len(reg) : reg[i].q = q /\ reg[i].lo <= c /\ c <= reg[i].hi
Expected(q) ==
  {e \in ToSet(C.it) :
     IF q.excl THEN \A x \in ToSet(e.loc) : InReg(q.reg, x, e.c)
     ELSE \E x \in ToSet(e.loc) : InReg(q.reg, x, e.c)}
QueryOK(q) ==
  /\ ToSet(q.got) = Expected(q)
  /\ Len(q.got) = Cardinality(Expected(q))                                    \* each operation once
  /\ \A i \in 1..Len(q.got) - 1 : IF q.rev THEN q.got[i].c >= q.got[i + 1].c ELSE q.got[i].c <= q.got[i + 1].c
  /\ q.got_ops = [i \in 1..Len(q.got) |-> q.got[i].loc]                        \* operations() = operations_with_cycles() without the cycles
IterVerdict ==
  IF \E i \in 1..Len(C.queries) : ~QueryOK(C.queries[i]) THEN "restricted-iteration"
  ELSE IF Len(C.it) # Len(Ops) \/ \E k \in 1..Len(Ops) : C.it[k].loc # Ops[k].loc THEN "restricted-iteration:default"
  ELSE "ok"

\* a documented call on a valid circuit that raised is a verdict of the clause the call belongs to
Verdict ==
  IF Len(C.raised) > 0 THEN C.raised[1].clause \o ":raised:" \o C.raised[1].call
  ELSE LET T == TLCEval(SemTable(Ops, R))
           a == SemVerdict(T)
       IN IF a # "ok" THEN a
          ELSE LET b == ParamVerdict IN IF b # "ok" THEN b ELSE IterVerdict

Init == tid \in 1..Len(Cases)
Next == UNCHANGED tid
Spec == Init /\ [][Next]_tid
Check == LET v == Verdict IN IF v = "ok" THEN TRUE ELSE PrintT(<<"VERDICT", tid, 0, v>>)
=============================================================================
