SPECIFICATION SpecCircuits
INVARIANT CircuitLaws
CONSTANTS
  MaxDim = 1
  PhaseGen = 12
  MaxOps = 3
  Regs <- RegsThorough
CHECK_DEADLOCK FALSE
