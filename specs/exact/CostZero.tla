------------------------------ MODULE CostZero ------------------------------
(* C19: cost functions and instantiation are faithful to circuit semantics -- the three clauses that
   can be decided without real arithmetic.

   zero-set             The Hilbert-Schmidt cost / residual function of (circuit, target), evaluated at the
                        circuit's parameters, is (numerically) zero IFF the circuit's operator and the target
                        agree up to ONE global phase.  Circuit and target are monomial, so "agree up to a global
                        phase" is integer arithmetic on SemTable(circuit); the harness only observes the boolean
                        is_zero = (cost < 1e-10) through every evaluation route and TLC says what it has to be.
                        Targets: a unitary (a circuit's table times any global phase), a state (basis state times
                        a phase; the circuit acts on |0..0>), a state system (basis -> basis-times-phase pairs).
   instantiate-structure  instantiate() returns the same object and leaves the op list (gate, location, cycle) as
                        it was; only parameter values may change.
   multistart-argmin    with k starts, the parameters that are kept are one of the k candidates the instantiater
                        produced, and no candidate has a smaller cost (costs observed as integers, cost * 10^9). *)
EXTENDS Naturals, Integers, Sequences, FiniteSets, TLC, Json, IOUtils, Monomial

Cases == JsonDeserialize(IOEnv.TRACE_FILE)
VARIABLES tid
C == Cases[tid]

\* ---------------------------------------------------------------- zero-set
\* unitary target: tops = ops of the target circuit (its table times an arbitrary global phase is the target)
UnitaryZero(T) == LET TT == TLCEval(SemTable(C.tops, C.r)) IN SameUpToPhase(T, TT)
\* state target [idx, ph]: the circuit maps |0..0> to that basis state (any phase)
StateZero(T) == T[1].idx = C.tstate.idx
\* state system: pairs [b, idx, ph]: one global phase g with T|b> = e^{ig} e^{i ph}|idx> for every pair
SystemZero(T) ==
  LET P == C.tpairs
      g == NormPh(T[P[1].b + 1].ph - P[1].ph)
  IN \A i \in 1..Len(P) : T[P[i].b + 1].idx = P[i].idx /\ NormPh(T[P[i].b + 1].ph - P[i].ph - g) = 0
ShouldBeZero ==
  LET T == TLCEval(SemTable(C.ops, C.r)) IN
  CASE C.tkind = "unitary" -> UnitaryZero(T)
    [] C.tkind = "state" -> StateZero(T)
    [] C.tkind = "system" -> SystemZero(T)
\* obs: sequence of [route, zero]: every route the cost was evaluated through
ZeroVerdict ==
  LET z == ShouldBeZero
      bad == {i \in 1..Len(C.obs) : C.obs[i].zero # z}
  IN IF bad = {} THEN "ok"
     ELSE "zero-set:" \o (IF z THEN "nonzero-cost-on-equal-maps" ELSE "zero-cost-on-different-maps") \o ":" \o C.obs[CHOOSE i \in bad : TRUE].route

\* ---------------------------------------------------------------- instantiate-structure
StructVerdict ==
  IF ~C.same_object THEN "instantiate-structure:returned-another-object"
  ELSE IF C.before # C.after THEN "instantiate-structure:op-list-changed"
  ELSE IF C.radixes_before # C.radixes_after THEN "instantiate-structure:radixes-changed"
  ELSE IF C.nparams_before # C.nparams_after THEN "instantiate-structure:num-params-changed"
  ELSE "ok"

\* ---------------------------------------------------------------- multistart-argmin
\* costs: cost * 10^9 of every candidate (in the order the instantiater produced them); kept: index of the candidate
\* whose parameters the circuit holds afterwards (0 = none of them); kept_cost: cost of the circuit afterwards
ArgminVerdict ==
  IF Len(C.costs) # C.starts THEN "multistart-argmin:number-of-candidates"
  ELSE IF C.kept = 0 THEN "multistart-argmin:kept-parameters-are-no-candidate"
  ELSE IF \E i \in 1..Len(C.costs) : C.costs[i] + C.tol < C.costs[C.kept] THEN "multistart-argmin:a-cheaper-candidate-was-dropped"
  ELSE IF C.kept_cost > C.costs[C.kept] + C.tol \/ C.kept_cost + C.tol < C.costs[C.kept] THEN "multistart-argmin:kept-cost-differs"
  ELSE "ok"

Verdict ==
  CASE C.kind = "zero" -> ZeroVerdict
    [] C.kind = "structure" -> StructVerdict
    [] C.kind = "argmin" -> ArgminVerdict

Init == tid \in 1..Len(Cases)
Next == UNCHANGED tid
Spec == Init /\ [][Next]_tid
Check == LET v == Verdict IN IF v = "ok" THEN TRUE ELSE PrintT(<<"VERDICT", tid, 0, v>>)
=============================================================================
