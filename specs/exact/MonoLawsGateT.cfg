SPECIFICATION SpecTables
INVARIANT GateLaws
CONSTANTS
  MaxDim = 3
  PhaseGen = 16
  MaxOps = 0
  Regs <- NoRegs
CHECK_DEADLOCK FALSE
