--------------------------- MODULE PassRewriteMC ---------------------------
(* C10: the rewrite rules behind BQSKit's rule passes as TLA+ rewriting actions on monomial circuits, model-checked:
   TLC starts from EVERY circuit of at most MaxOps operations over the two-qubit alphabet below and applies the rules
   at every position in every order (circuits longer than MaxLen are not extended); the invariant says that the
   semantics (Monomial.SemTable) never changes.  This validates the algebra of the oracle that PassContracts uses, and
   the rules themselves, independently of the implementation; the same initial circuits are then run through the real
   rule passes (harness/checks/c10.py enumerates the same finite set in Python).

   Rules (only monomial-closed ones; H-based rules such as CX = H CZ H leave the domain gate by gate):
     SwapToCX     SWAP(a,b)          -> CX(b,a) CX(a,b) CX(b,a)          (SwapToCNOTPass)
     CYToCX       CY(c,t)            -> Sdg(t) CX(c,t) S(t)              (CYToCNOTPass)
     CXToCY       CX(c,t)            -> S(t) CY(c,t) Sdg(t)              (CNOTToCYPass)
     CZToCX       CZ(a,b)            -> CX(a,b) Sdg(b) CX(a,b) S(a) S(b) (controlled-phase identity, monomial form of CZToCNOT)
     CZFlip       CZ(a,b)            -> CZ(b,a)
     XThroughCX   X(c) CX(c,t)       -> CX(c,t) X(c) X(t)
     ZThroughCX   Z(t) CX(c,t)       -> CX(c,t) Z(c) Z(t)
     SSToZ        S(q) S(q)          -> Z(q)                                                                       *)
EXTENDS Naturals, Integers, Sequences, FiniteSets, TLC, Monomial

CONSTANTS MaxOps, MaxLen
VARIABLES orig, osem, circ, last       \* osem = SemTable(orig), computed once per initial circuit
vars == <<orig, osem, circ, last>>

R == <<2, 2>>
Op(g, loc) == [g |-> g, p |-> <<0>>, loc |-> loc, t |-> <<[idx |-> 0, ph |-> 0]>>, ops |-> <<>>]
Alphabet == {Op(g, <<q>>) : g \in {"X", "Z", "S", "T"}, q \in {0, 1}}
            \cup {Op(g, l) : g \in {"CX", "CY", "CZ", "SWAP"}, l \in {<<0, 1>>, <<1, 0>>}}

Init == /\ \E n \in 0..MaxOps : orig \in [1..n -> Alphabet]
        /\ circ = orig /\ last = "init" /\ osem = SemTable(orig, R)

Splice(c, i, k, new) == SubSeq(c, 1, i - 1) \o new \o SubSeq(c, i + k, Len(c))      \* replace k ops at position i
Step(rule, c) == /\ Len(c) <= MaxLen
                 /\ circ' = c /\ last' = rule /\ UNCHANGED <<orig, osem>>

SwapToCX == \E i \in 1..Len(circ) : circ[i].g = "SWAP" /\
              LET a == circ[i].loc[1]  b == circ[i].loc[2]
              IN Step("SwapToCX", Splice(circ, i, 1, <<Op("CX", <<b, a>>), Op("CX", <<a, b>>), Op("CX", <<b, a>>)>>))
CYToCX == \E i \in 1..Len(circ) : circ[i].g = "CY" /\
              LET c == circ[i].loc[1]  t == circ[i].loc[2]
              IN Step("CYToCX", Splice(circ, i, 1, <<Op("Sdg", <<t>>), Op("CX", <<c, t>>), Op("S", <<t>>)>>))
CXToCY == \E i \in 1..Len(circ) : circ[i].g = "CX" /\
              LET c == circ[i].loc[1]  t == circ[i].loc[2]
              IN Step("CXToCY", Splice(circ, i, 1, <<Op("S", <<t>>), Op("CY", <<c, t>>), Op("Sdg", <<t>>)>>))
CZToCX == \E i \in 1..Len(circ) : circ[i].g = "CZ" /\
              LET a == circ[i].loc[1]  b == circ[i].loc[2]
              IN Step("CZToCX", Splice(circ, i, 1, <<Op("CX", <<a, b>>), Op("Sdg", <<b>>), Op("CX", <<a, b>>), Op("S", <<a>>), Op("S", <<b>>)>>))
CZFlip == \E i \in 1..Len(circ) : circ[i].g = "CZ" /\
              Step("CZFlip", Splice(circ, i, 1, <<Op("CZ", <<circ[i].loc[2], circ[i].loc[1]>>)>>))
XThroughCX == \E i \in 1..Len(circ) - 1 :
              /\ circ[i].g = "X" /\ circ[i + 1].g = "CX" /\ circ[i + 1].loc[1] = circ[i].loc[1]
              /\ LET c == circ[i + 1].loc[1]  t == circ[i + 1].loc[2]
                 IN Step("XThroughCX", Splice(circ, i, 2, <<circ[i + 1], Op("X", <<c>>), Op("X", <<t>>)>>))
ZThroughCX == \E i \in 1..Len(circ) - 1 :
              /\ circ[i].g = "Z" /\ circ[i + 1].g = "CX" /\ circ[i + 1].loc[2] = circ[i].loc[1]
              /\ LET c == circ[i + 1].loc[1]  t == circ[i + 1].loc[2]
                 IN Step("ZThroughCX", Splice(circ, i, 2, <<circ[i + 1], Op("Z", <<c>>), Op("Z", <<t>>)>>))
SSToZ == \E i \in 1..Len(circ) - 1 :
              /\ circ[i].g = "S" /\ circ[i + 1].g = "S" /\ circ[i].loc = circ[i + 1].loc
              /\ Step("SSToZ", Splice(circ, i, 2, <<Op("Z", circ[i].loc)>>))

Next == SwapToCX \/ CYToCX \/ CXToCY \/ CZToCX \/ CZFlip \/ XThroughCX \/ ZThroughCX \/ SSToZ
Spec == Init /\ [][Next]_vars

\* rewriting never changes the operator: exactly (these rules fix the global phase too), hence up to global phase
SemPreserved == LET T == SemTable(circ, R) IN SameExactly(T, osem) /\ SameUpToPhase(T, osem)
\* the stored table is the semantics of the stored initial circuit (checked on initial states only: it never changes)
OrigSem == last = "init" => osem = SemTable(orig, R)
\* a rule that removes its source gate at one position does not leave the gate name behind there (sanity of Splice)
WellFormed == /\ Len(circ) <= MaxLen
              /\ \A i \in 1..Len(circ) : Len(circ[i].loc) \in {1, 2} /\ \A j \in 1..Len(circ[i].loc) : circ[i].loc[j] \in {0, 1}
View == <<orig, circ>>
=============================================================================
