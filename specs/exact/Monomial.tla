---------------------------- MODULE Monomial ----------------------------
(* Exact semantics of generalized-permutation ("monomial") quantum circuits.

   A monomial operator maps every computational basis state to one basis
   state times a phase.  On this domain "the same linear map" is integer
   arithmetic: basis digits in mixed radix (qudit 1 = most significant, as in
   BQSKit where qudit 0 is the most significant tensor factor) and phases in
   units of 2*pi/48 (closed under eighth roots, needed for T / CT / RZ(pi/4),
   cube roots, needed for qutrit Clock, and pi/6, needed for Sycamore).

   Gates are given by NAME in this module: the definitions below are the
   specification (textbook / OpenQASM / Qiskit conventions), the implementation's
   matrices are only observed and compared.  Parameters of parameterised gates
   are integers p meaning the angle p*pi/4.

   Used by C01, C03, C06, C10, C17, C18, C19, C20. *)
EXTENDS Naturals, Integers, Sequences, FiniteSets, TLC

PH == 48
Mod(x, m) == ((x % m) + m) % m
NormPh(x) == Mod(x, PH)

\* ---------------------------------------------------------------- registers
RECURSIVE DigitsRec(_, _, _)
DigitsRec(b, r, k) == IF k = 0 THEN <<>> ELSE Append(DigitsRec(b \div r[k], r, k - 1), b % r[k])
Digits(b, r) == DigitsRec(b, r, Len(r))
RECURSIVE IndexRec(_, _, _)
IndexRec(d, r, k) == IF k = 0 THEN 0 ELSE IndexRec(d, r, k - 1) * r[k] + d[k]
Index(d, r) == IndexRec(d, r, Len(r))
RECURSIVE DimRec(_, _)
DimRec(r, k) == IF k = 0 THEN 1 ELSE DimRec(r, k - 1) * r[k]
Dim(r) == DimRec(r, Len(r))
Range(s) == {s[i] : i \in 1..Len(s)}

\* A *table* is a sequence over basis index (1-based: entry b+1 describes |b>) of
\* records [idx, ph]: the operator maps |b> to e^{2 pi i ph/48} |idx>.
Ident(n) == [b \in 1..n |-> [idx |-> b - 1, ph |-> 0]]
IsTable(T) == /\ \A b \in 1..Len(T) : T[b].idx \in 0..Len(T) - 1 /\ T[b].ph \in 0..PH - 1
              /\ \A a, b \in 1..Len(T) : a # b => T[a].idx # T[b].idx
\* (TLCEval forces TLC to materialise a table once; its function values are otherwise lazy and re-evaluated per access)
Compose(T2, T1) ==   \* T2 after T1  (matrix product T2 * T1)
  TLCEval([b \in 1..Len(T1) |-> [idx |-> T2[T1[b].idx + 1].idx, ph |-> NormPh(T1[b].ph + T2[T1[b].idx + 1].ph)]])
Inverse(T) ==
  TLCEval([j \in 1..Len(T) |-> LET b == CHOOSE x \in 1..Len(T) : T[x].idx = j - 1
                               IN [idx |-> b - 1, ph |-> NormPh(-T[b].ph)]])
RECURSIVE Power(_, _)
Power(T, k) == IF k = 0 THEN Ident(Len(T)) ELSE IF k < 0 THEN Power(Inverse(T), -k) ELSE Compose(T, Power(T, k - 1))
Kron(A, B) ==        \* A (x) B, A on the more significant qudits
  TLCEval([c \in 1..Len(A) * Len(B) |->
     LET a == (c - 1) \div Len(B)  b == (c - 1) % Len(B)
     IN [idx |-> A[a + 1].idx * Len(B) + B[b + 1].idx, ph |-> NormPh(A[a + 1].ph + B[b + 1].ph)]])
\* equality up to one global phase
SameUpToPhase(A, B) ==
  /\ Len(A) = Len(B)
  /\ LET g == NormPh(A[1].ph - B[1].ph)
     IN \A b \in 1..Len(A) : A[b].idx = B[b].idx /\ NormPh(A[b].ph - B[b].ph - g) = 0
SameExactly(A, B) == Len(A) = Len(B) /\ \A b \in 1..Len(A) : A[b].idx = B[b].idx /\ A[b].ph = B[b].ph

\* ------------------------------------------------------------ gate library
\* Gate(name, p, l, lr): action on local digits l (sequence, radixes lr); p = parameter
\* sequence (units of pi/4).  Result <<digits', phase>>.
Bit(c) == IF c THEN 1 ELSE 0
\* U3(theta, phi, lambda) with theta = m*pi (m = p[1] \div 4), phases phi = p[2]*pi/4, lambda = p[3]*pi/4
\*   [[cos(t/2), -e^{i lam} sin(t/2)], [e^{i phi} sin(t/2), e^{i(phi+lam)} cos(t/2)]]
U3Act(m, phi, lam, d) ==
  LET mm == Mod(m, 4) IN
  CASE mm = 0 -> << <<d>>, IF d = 0 THEN 0 ELSE NormPh(6 * (phi + lam)) >>
    [] mm = 2 -> << <<d>>, IF d = 0 THEN 24 ELSE NormPh(24 + 6 * (phi + lam)) >>
    [] mm = 1 -> IF d = 0 THEN << <<1>>, NormPh(6 * phi) >> ELSE << <<0>>, NormPh(24 + 6 * lam) >>
    [] mm = 3 -> IF d = 0 THEN << <<1>>, NormPh(24 + 6 * phi) >> ELSE << <<0>>, NormPh(6 * lam) >>
RZAct(p, d) == << <<d>>, IF d = 0 THEN NormPh(-3 * p) ELSE NormPh(3 * p) >>
\* RX(m*pi) = cos(m pi/2) I - i sin(m pi/2) X
RXAct(m, d) == LET mm == Mod(m, 4) IN
  CASE mm = 0 -> << <<d>>, 0 >> [] mm = 2 -> << <<d>>, 24 >>
    [] mm = 1 -> << <<1 - d>>, 36 >> [] mm = 3 -> << <<1 - d>>, 12 >>
\* RY(m*pi) = [[c, -s], [s, c]]
RYAct(m, d) == LET mm == Mod(m, 4) IN
  CASE mm = 0 -> << <<d>>, 0 >> [] mm = 2 -> << <<d>>, 24 >>
    [] mm = 1 -> IF d = 0 THEN << <<1>>, 0 >> ELSE << <<0>>, 24 >>
    [] mm = 3 -> IF d = 0 THEN << <<1>>, 24 >> ELSE << <<0>>, 0 >>

Gate1(name, p, d, r) ==
  CASE name = "I"    -> << <<d>>, 0 >>
    [] name = "X"    -> << <<1 - d>>, 0 >>
    [] name = "Y"    -> << <<1 - d>>, IF d = 0 THEN 12 ELSE 36 >>
    [] name = "Z"    -> << <<d>>, 24 * d >>
    [] name = "S"    -> << <<d>>, 12 * d >>
    [] name = "Sdg"  -> << <<d>>, 36 * d >>
    [] name = "T"    -> << <<d>>, 6 * d >>
    [] name = "Tdg"  -> << <<d>>, 42 * d >>
    [] name = "SqrtT" -> << <<d>>, 3 * d >>
    [] name = "Shift" -> << <<(d + 1) % r>>, 0 >>
    [] name = "Clock" -> << <<d>>, NormPh((PH \div r) * d) >>       \* r in {2,3,4}: omega = e^{2 pi i / r}
    [] name = "RZ"   -> RZAct(p[1], d)
    [] name = "U1"   -> << <<d>>, NormPh(6 * p[1] * d) >>
    [] name = "RX"   -> RXAct(p[1] \div 4, d)
    [] name = "RY"   -> RYAct(p[1] \div 4, d)
    [] name = "U3"   -> U3Act(p[1] \div 4, p[2], p[3], d)
    [] name = "U2"   -> << <<d>>, 0 >>      \* never monomial; placeholder so CASE is total for names
Gate2(name, p, a, b, ra, rb) ==
  CASE name = "CX"   -> << <<a, IF a = 1 THEN 1 - b ELSE b>>, 0 >>
    [] name = "CY"   -> IF a = 1 THEN << <<a, 1 - b>>, IF b = 0 THEN 12 ELSE 36 >> ELSE << <<a, b>>, 0 >>
    [] name = "CZ"   -> << <<a, b>>, 24 * a * b >>
    [] name = "CS"   -> << <<a, b>>, 12 * a * b >>
    [] name = "CT"   -> << <<a, b>>, 6 * a * b >>
    [] name = "SWAP" -> << <<b, a>>, 0 >>
    [] name = "ISWAP" -> << <<b, a>>, IF a # b THEN 12 ELSE 0 >>
    [] name = "Sycamore" -> << <<b, a>>, IF a # b THEN 36 ELSE IF a = 1 THEN 44 ELSE 0 >>  \* fSim(pi/2, pi/6)
    [] name = "ZZ"   -> << <<a, b>>, IF a = b THEN 42 ELSE 6 >>     \* exp(-i pi/4 Z(x)Z)
    [] name = "CSUM" -> << <<a, (a + b) % rb>>, 0 >>
    [] name = "CPI"  -> IF a = 1 /\ b < 2 THEN << <<a, 1 - b>>, 0 >> ELSE << <<a, b>>, 0 >>   \* two-qutrit: control level 1 swaps target levels 0,1
    [] name = "CP"   -> << <<a, b>>, NormPh(6 * p[1] * a * b) >>
    [] name = "CRZ"  -> IF a = 1 THEN << <<a, b>>, RZAct(p[1], b)[2] >> ELSE << <<a, b>>, 0 >>
    [] name = "RZZ"  -> << <<a, b>>, IF a = b THEN NormPh(-3 * p[1]) ELSE NormPh(3 * p[1]) >>
    [] name = "CRX"  -> IF a = 1 THEN LET g == RXAct(p[1] \div 4, b) IN << <<a, g[1][1]>>, g[2] >> ELSE << <<a, b>>, 0 >>
    [] name = "CRY"  -> IF a = 1 THEN LET g == RYAct(p[1] \div 4, b) IN << <<a, g[1][1]>>, g[2] >> ELSE << <<a, b>>, 0 >>
Gate3(name, p, a, b, c) ==
  CASE name = "CCX"  -> << <<a, b, IF a = 1 /\ b = 1 THEN 1 - c ELSE c>>, 0 >>
    [] name = "CCZ"  -> << <<a, b, c>>, 24 * a * b * c >>
    [] name = "CSWAP" -> IF a = 1 THEN << <<a, c, b>>, 0 >> ELSE << <<a, b, c>>, 0 >>
    [] name = "CCP"  -> << <<a, b, c>>, NormPh(6 * p[1] * a * b * c) >>
Gate(name, p, l, lr) ==
  IF Len(l) = 1 THEN Gate1(name, p, l[1], lr[1])
  ELSE IF Len(l) = 2 THEN Gate2(name, p, l[1], l[2], lr[1], lr[2])
  ELSE Gate3(name, p, l[1], l[2], l[3])

\* table of a named gate on radixes lr
GateTable(name, p, lr) ==
  TLCEval([b \in 1..Dim(lr) |-> LET g == Gate(name, p, Digits(b - 1, lr), lr)
                                IN [idx |-> Index(g[1], lr), ph |-> NormPh(g[2])]])

\* Controlled(T, cr, levels, tr): controls first; active iff every control digit is in its level set
Controlled(T, cr, levels, tr) ==
  LET r == cr \o tr  nc == Len(cr)  n == Dim(r) IN
  TLCEval([b \in 1..n |->
     LET d == Digits(b - 1, r)
         active == \A i \in 1..nc : \E j \in 1..Len(levels[i]) : levels[i][j] = d[i]
         tb == Index(SubSeq(d, nc + 1, Len(r)), tr)
     IN IF active THEN [idx |-> (b - 1 - tb) + T[tb + 1].idx, ph |-> T[tb + 1].ph] ELSE [idx |-> b - 1, ph |-> 0]])

\* ---------------------------------------------------------- circuits
\* An op is [g |-> name | "TABLE" | "BLOCK", p |-> params, loc |-> 0-based qudits (any order),
\*            t |-> table (for TABLE: a table on the local radixes),
\*            ops |-> inner ops (for BLOCK: local qudit numbering 0..Len(loc)-1)].
\* State st = <<digits, phase>>.
RECURSIVE ApplyOp(_, _, _)
ApplyOp(op, r, st) ==
  LET loc == op.loc
      l  == [i \in 1..Len(loc) |-> st[1][loc[i] + 1]]
      lr == [i \in 1..Len(loc) |-> r[loc[i] + 1]]
      g  == IF op.g = "TABLE"
              THEN LET e == op.t[Index(l, lr) + 1] IN << Digits(e.idx, lr), e.ph >>
            ELSE IF op.g = "BLOCK"
              THEN LET RECURSIVE Run(_, _)
                       Run(k, s) == IF k > Len(op.ops) THEN s ELSE Run(k + 1, ApplyOp(op.ops[k], lr, s))
                   IN Run(1, <<l, 0>>)
            ELSE Gate(op.g, op.p, l, lr)
      d2 == TLCEval([q \in 1..Len(r) |-> IF \E i \in 1..Len(loc) : loc[i] + 1 = q
                                 THEN g[1][CHOOSE i \in 1..Len(loc) : loc[i] + 1 = q] ELSE st[1][q]])
  IN << d2, NormPh(st[2] + g[2]) >>
RECURSIVE SemRec(_, _, _, _)
SemRec(ops, r, st, k) == IF k > Len(ops) THEN st ELSE SemRec(ops, r, ApplyOp(ops[k], r, st), k + 1)
Sem(ops, r, b) == LET s == SemRec(ops, r, <<Digits(b, r), 0>>, 1) IN [idx |-> Index(s[1], r), ph |-> s[2]]
SemTable(ops, r) == TLCEval([b \in 1..Dim(r) |-> Sem(ops, r, b - 1)])

\* An observation of the implementation: sequence over basis index of [idx, ph, within];
\* within = the observed column is, numerically, that basis vector times that phase class.
ObsOK(obs) == \A b \in 1..Len(obs) : obs[b].within
ObsTable(obs) == [b \in 1..Len(obs) |-> [idx |-> obs[b].idx, ph |-> obs[b].ph]]

\* --------------------------------------------------- compilation semantics
\* Expected action of an output circuit on physical basis states obtained by embedding the
\* logical register at positions pi (0-based physical index per logical qudit), all other
\* physical qudits 0, and reading logical qudit i back from physical qudit pf[i].
Embed(ld, pi, width) == [q \in 1..width |-> IF \E i \in 1..Len(pi) : pi[i] + 1 = q
                                             THEN ld[CHOOSE i \in 1..Len(pi) : pi[i] + 1 = q] ELSE 0]
ReadBack(pd, pf) == [i \in 1..Len(pf) |-> pd[pf[i] + 1]]
OthersZero(pd, pf) == \A q \in 1..Len(pd) : (\A i \in 1..Len(pf) : pf[i] + 1 # q) => pd[q] = 0
=============================================================================
