---------------------------- MODULE Monomial ----------------------------
(* Exact semantics of generalized-permutation ("monomial") quantum circuits.

   A monomial operator maps every computational basis state to one basis
   state times a phase.  On this domain "the same linear map" is integer
   arithmetic: basis digits in mixed radix (qudit 1 = most significant, as in
   BQSKit where qudit 0 is the most significant tensor factor) and phases in
   units of 2*pi/48 (closed under eighth roots, needed for T / CT / RZ(pi/4),
   cube roots, needed for qutrit Clock, and pi/6, needed for Sycamore).

   Gates are given by NAME in this module: the definitions below are the
   specification (textbook / OpenQASM / Qiskit conventions), the implementation's
   matrices are only observed and compared.  Parameters of parameterised gates
   are integers p meaning the angle p*pi/4.

   Used by C01, C03, C06, C10, C17, C18, C19, C20. *)
EXTENDS Naturals, Integers, Sequences, FiniteSets, TLC

PH == 48
Mod(x, m) == ((x % m) + m) % m
NormPh(x) == Mod(x, PH)

\* ---------------------------------------------------------------- registers
RECURSIVE DigitsRec(_, _, _)
DigitsRec(b, r, k) == IF k = 0 THEN <<>> ELSE Append(DigitsRec(b \div r[k], r, k - 1), b % r[k])
Digits(b, r) == DigitsRec(b, r, Len(r))
RECURSIVE IndexRec(_, _, _)
IndexRec(d, r, k) == IF k = 0 THEN 0 ELSE IndexRec(d, r, k - 1) * r[k] + d[k]
Index(d, r) == IndexRec(d, r, Len(r))
RECURSIVE DimRec(_, _)
DimRec(r, k) == IF k = 0 THEN 1 ELSE DimRec(r, k - 1) * r[k]
Dim(r) == DimRec(r, Len(r))
Range(s) == {s[i] : i \in 1..Len(s)}

\* A *table* is a sequence over basis index (1-based: entry b+1 describes |b>) of
\* records [idx, ph]: the operator maps |b> to e^{2 pi i ph/48} |idx>.
Ident(n) == [b \in 1..n |-> [idx |-> b - 1, ph |-> 0]]
IsTable(T) == /\ \A b \in 1..Len(T) : T[b].idx \in 0..Len(T) - 1 /\ T[b].ph \in 0..PH - 1
              /\ \A a, b \in 1..Len(T) : a # b => T[a].idx # T[b].idx
\* (TLCEval forces TLC to materialise a table once; its function values are otherwise lazy and re-evaluated per access)
Compose(T2, T1) ==   \* T2 after T1  (matrix product T2 * T1)
  TLCEval([b \in 1..Len(T1) |-> [idx |-> T2[T1[b].idx + 1].idx, ph |-> NormPh(T1[b].ph + T2[T1[b].idx + 1].ph)]])
Inverse(T) ==
  TLCEval([j \in 1..Len(T) |-> LET b == CHOOSE x \in 1..Len(T) : T[x].idx = j - 1
                               IN [idx |-> b - 1, ph |-> NormPh(-T[b].ph)]])
RECURSIVE Power(_, _)
Power(T, k) == IF k = 0 THEN Ident(Len(T)) ELSE IF k < 0 THEN Power(Inverse(T), -k) ELSE Compose(T, Power(T, k - 1))
Kron(A, B) ==        \* A (x) B, A on the more significant qudits
  TLCEval([c \in 1..Len(A) * Len(B) |->
     LET a == (c - 1) \div Len(B)  b == (c - 1) % Len(B)
     IN [idx |-> A[a + 1].idx * Len(B) + B[b + 1].idx, ph |-> NormPh(A[a + 1].ph + B[b + 1].ph)]])
\* equality up to one global phase
SameUpToPhase(A, B) ==
  /\ Len(A) = Len(B)
  /\ LET g == NormPh(A[1].ph - B[1].ph)
     IN \A b \in 1..Len(A) : A[b].idx = B[b].idx /\ NormPh(A[b].ph - B[b].ph - g) = 0
SameExactly(A, B) == Len(A) = Len(B) /\ \A b \in 1..Len(A) : A[b].idx = B[b].idx /\ A[b].ph = B[b].ph

\* ------------------------------------------------------------ gate library
\* Gate(name, p, l, lr): action on local digits l (sequence, radixes lr); p = parameter
\* sequence (units of pi/4).  Result <<digits', phase>>.
Bit(c) == IF c THEN 1 ELSE 0
\* U3(theta, phi, lambda) with theta = m*pi (m = p[1] \div 4), phases phi = p[2]*pi/4, lambda = p[3]*pi/4
\*   [[cos(t/2), -e^{i lam} sin(t/2)], [e^{i phi} sin(t/2), e^{i(phi+lam)} cos(t/2)]]
U3Act(m, phi, lam, d) ==
  LET mm == Mod(m, 4) IN
  CASE mm = 0 -> << <<d>>, IF d = 0 THEN 0 ELSE NormPh(6 * (phi + lam)) >>
    [] mm = 2 -> << <<d>>, IF d = 0 THEN 24 ELSE NormPh(24 + 6 * (phi + lam)) >>
    [] mm = 1 -> IF d = 0 THEN << <<1>>, NormPh(6 * phi) >> ELSE << <<0>>, NormPh(24 + 6 * lam) >>
    [] mm = 3 -> IF d = 0 THEN << <<1>>, NormPh(24 + 6 * phi) >> ELSE << <<0>>, NormPh(6 * lam) >>
RZAct(p, d) == << <<d>>, IF d = 0 THEN NormPh(-3 * p) ELSE NormPh(3 * p) >>
\* RX(m*pi) = cos(m pi/2) I - i sin(m pi/2) X
RXAct(m, d) == LET mm == Mod(m, 4) IN
  CASE mm = 0 -> << <<d>>, 0 >> [] mm = 2 -> << <<d>>, 24 >>
    [] mm = 1 -> << <<1 - d>>, 36 >> [] mm = 3 -> << <<1 - d>>, 12 >>
\* RY(m*pi) = [[c, -s], [s, c]]
RYAct(m, d) == LET mm == Mod(m, 4) IN
  CASE mm = 0 -> << <<d>>, 0 >> [] mm = 2 -> << <<d>>, 24 >>
    [] mm = 1 -> IF d = 0 THEN << <<1>>, 0 >> ELSE << <<0>>, 24 >>
    [] mm = 3 -> IF d = 0 THEN << <<1>>, 24 >> ELSE << <<0>>, 0 >>

\* U1q(theta, phi) = [[cos(t/2), -i e^{-i phi} sin(t/2)], [-i e^{i phi} sin(t/2), cos(t/2)]], theta = m*pi
U1qAct(m, phi, d) == LET mm == Mod(m, 4) IN
  CASE mm = 0 -> << <<d>>, 0 >> [] mm = 2 -> << <<d>>, 24 >>
    [] mm = 1 -> IF d = 0 THEN << <<1>>, NormPh(36 + 6 * phi) >> ELSE << <<0>>, NormPh(36 - 6 * phi) >>
    [] mm = 3 -> IF d = 0 THEN << <<1>>, NormPh(12 + 6 * phi) >> ELSE << <<0>>, NormPh(12 - 6 * phi) >>

Gate1(name, p, d, r) ==
  CASE name = "I"    -> << <<d>>, 0 >>
    [] name = "X"    -> << <<1 - d>>, 0 >>
    [] name = "Y"    -> << <<1 - d>>, IF d = 0 THEN 12 ELSE 36 >>
    [] name = "Z"    -> << <<d>>, 24 * d >>
    [] name = "S"    -> << <<d>>, 12 * d >>
    [] name = "Sdg"  -> << <<d>>, 36 * d >>
    [] name = "T"    -> << <<d>>, 6 * d >>
    [] name = "Tdg"  -> << <<d>>, 42 * d >>
    [] name = "SqrtT" -> << <<d>>, 3 * d >>
    [] name = "Shift" -> << <<(d + 1) % r>>, 0 >>
    [] name = "Clock" -> << <<d>>, NormPh((PH \div r) * d) >>       \* r in {2,3,4}: omega = e^{2 pi i / r}
    [] name = "RZ"   -> RZAct(p[1], d)
    [] name = "U1"   -> << <<d>>, NormPh(6 * p[1] * d) >>
    [] name = "RX"   -> RXAct(p[1] \div 4, d)
    [] name = "RY"   -> RYAct(p[1] \div 4, d)
    [] name = "U3"   -> U3Act(p[1] \div 4, p[2], p[3], d)
    [] name = "U2"   -> << <<d>>, 0 >>      \* never monomial; placeholder so CASE is total for names
    [] name = "U1q"  -> U1qAct(p[1] \div 4, p[2], d)
RXXAct(mm, a, b) ==
  CASE mm = 0 -> << <<a, b>>, 0 >> [] mm = 2 -> << <<a, b>>, 24 >>
    [] mm = 1 -> << <<1 - a, 1 - b>>, 36 >> [] mm = 3 -> << <<1 - a, 1 - b>>, 12 >>
RYYAct(mm, a, b) ==
  CASE mm = 0 -> << <<a, b>>, 0 >> [] mm = 2 -> << <<a, b>>, 24 >>
    [] mm = 1 -> << <<1 - a, 1 - b>>, IF a = b THEN 12 ELSE 36 >>
    [] mm = 3 -> << <<1 - a, 1 - b>>, IF a = b THEN 36 ELSE 12 >>
FSIMAct(k, phi, a, b) ==
  IF a = b THEN << <<a, b>>, IF a = 1 THEN NormPh(-6 * phi) ELSE 0 >>
  ELSE CASE k = 0 -> << <<a, b>>, 0 >> [] k = 2 -> << <<a, b>>, 24 >>
         [] k = 1 -> << <<b, a>>, 36 >> [] k = 3 -> << <<b, a>>, 12 >>
Gate2(name, p, a, b, ra, rb) ==
  CASE name = "CX"   -> << <<a, IF a = 1 THEN 1 - b ELSE b>>, 0 >>
    [] name = "CY"   -> IF a = 1 THEN << <<a, 1 - b>>, IF b = 0 THEN 12 ELSE 36 >> ELSE << <<a, b>>, 0 >>
    [] name = "CZ"   -> << <<a, b>>, 24 * a * b >>
    [] name = "CS"   -> << <<a, b>>, 12 * a * b >>
    [] name = "CT"   -> << <<a, b>>, 6 * a * b >>
    [] name = "SWAP" -> << <<b, a>>, 0 >>
    [] name = "ISWAP" -> << <<b, a>>, IF a # b THEN 12 ELSE 0 >>
    [] name = "Sycamore" -> << <<b, a>>, IF a # b THEN 36 ELSE IF a = 1 THEN 44 ELSE 0 >>  \* fSim(pi/2, pi/6)
    [] name = "ZZ"   -> << <<a, b>>, IF a = b THEN 42 ELSE 6 >>     \* exp(-i pi/4 Z(x)Z)
    [] name = "CSUM" -> << <<a, (a + b) % rb>>, 0 >>
    [] name = "CPI"  -> IF a = 1 /\ b < 2 THEN << <<a, 1 - b>>, 0 >> ELSE << <<a, b>>, 0 >>   \* two-qutrit: control level 1 swaps target levels 0,1
    [] name = "CP"   -> << <<a, b>>, NormPh(6 * p[1] * a * b) >>
    [] name = "CRZ"  -> IF a = 1 THEN << <<a, b>>, RZAct(p[1], b)[2] >> ELSE << <<a, b>>, 0 >>
    [] name = "RZZ"  -> << <<a, b>>, IF a = b THEN NormPh(-3 * p[1]) ELSE NormPh(3 * p[1]) >>
    [] name = "CRX"  -> IF a = 1 THEN LET g == RXAct(p[1] \div 4, b) IN << <<a, g[1][1]>>, g[2] >> ELSE << <<a, b>>, 0 >>
    [] name = "CRY"  -> IF a = 1 THEN LET g == RYAct(p[1] \div 4, b) IN << <<a, g[1][1]>>, g[2] >> ELSE << <<a, b>>, 0 >>
    \* RXX(m*pi) = cos(m pi/2) I - i sin(m pi/2) X(x)X ; RYY likewise with Y(x)Y (Y(x)Y|ab> = -(-1)^(a+b) |1-a,1-b>)
    [] name = "RXX"  -> RXXAct(Mod(p[1] \div 4, 4), a, b)
    [] name = "RYY"  -> RYYAct(Mod(p[1] \div 4, 4), a, b)
    \* FSIM(theta, phi) (cirq FSimGate): theta = k*pi/2 (p[1] even), |11> -> e^{-i phi}|11>
    [] name = "FSIM" -> FSIMAct(Mod(p[1] \div 2, 4), p[2], a, b)
    \* CU(theta, phi, lambda, gamma) = |0><0| (x) I + |1><1| (x) e^{i gamma} U3(theta, phi, lambda)   (OpenQASM 3 / Qiskit CUGate)
    [] name = "CU"   -> IF a = 1 THEN LET g == U3Act(p[1] \div 4, p[2], p[3], b) IN << <<a, g[1][1]>>, NormPh(g[2] + 6 * p[4]) >>
                        ELSE << <<a, b>>, 0 >>
    \* SubSwap: p = <<a1, b1, a2, b2>>: exchanges |a1 b1> and |a2 b2>
    [] name = "SUBSWAP" -> IF a = p[1] /\ b = p[2] THEN << <<p[3], p[4]>>, 0 >>
                           ELSE IF a = p[3] /\ b = p[4] THEN << <<p[1], p[2]>>, 0 >> ELSE << <<a, b>>, 0 >>
Gate3(name, p, a, b, c) ==
  CASE name = "CCX"  -> << <<a, b, IF a = 1 /\ b = 1 THEN 1 - c ELSE c>>, 0 >>
    [] name = "CCZ"  -> << <<a, b, c>>, 24 * a * b * c >>
    [] name = "CSWAP" -> IF a = 1 THEN << <<a, c, b>>, 0 >> ELSE << <<a, b, c>>, 0 >>
    [] name = "CCP"  -> << <<a, b, c>>, NormPh(6 * p[1] * a * b * c) >>
    [] name = "IToffoli" -> IF a = 1 /\ b = 1 THEN << <<a, b, 1 - c>>, 12 >> ELSE << <<a, b, c>>, 0 >>      \* diag(I_6, i X)
    \* relative-phase Toffoli (Qiskit RCCXGate, "Margolus"): |101> -> -|101>, |110> -> i|111>, |111> -> -i|110>
    [] name = "RCCX" -> IF a = 1 /\ b = 1 THEN << <<a, b, 1 - c>>, IF c = 0 THEN 12 ELSE 36 >>
                        ELSE << <<a, b, c>>, IF a = 1 /\ c = 1 THEN 24 ELSE 0 >>
\* relative-phase 3-controlled X (Qiskit RC3XGate): |1100> -> i|1100>, |1101> -> -i|1101>, |1110> -> -|1111>, |1111> -> |1110>
Gate4(name, p, a, b, c, d) ==
  CASE name = "RC3X" -> IF a = 1 /\ b = 1 THEN (IF c = 0 THEN << <<a, b, c, d>>, IF d = 0 THEN 12 ELSE 36 >>
                                                 ELSE << <<a, b, c, 1 - d>>, IF d = 0 THEN 24 ELSE 0 >>)
                        ELSE << <<a, b, c, d>>, 0 >>
\* gates of any arity; constructor arguments (if any) come first in p, then the parameters
GenericNames == {"IDN", "PERM", "ACP", "DIAG", "MPRZ", "MPRY"}
RECURSIVE BitsIndex(_, _, _)
BitsIndex(l, skip, k) == IF k = 0 THEN 0 ELSE IF k = skip THEN BitsIndex(l, skip, k - 1) ELSE 2 * BitsIndex(l, skip, k - 1) + l[k]
GateN(name, p, l, lr) ==
  CASE name = "IDN"  -> << l, 0 >>                                   \* IdentityGate(n, radixes)
    \* PermutationGate(n, location) = PermutationMatrix.from_qubit_location: qudit p[i] moves to position i, the rest follow in increasing order
    [] name = "PERM" -> LET rest == SelectSeq([i \in 1..Len(l) |-> i - 1], LAMBDA q : \A j \in 1..Len(p) : p[j] # q)
                            full == p \o rest
                        IN << [i \in 1..Len(l) |-> l[full[i] + 1]], 0 >>
    \* ArbitraryCPhaseGate(radixes): only the last basis state gets e^{i theta}
    [] name = "ACP"  -> << l, IF \A i \in 1..Len(l) : l[i] = lr[i] - 1 THEN NormPh(6 * p[1]) ELSE 0 >>
    \* DiagonalGate(n): diag(1, e^{i t1}, ..., e^{i t_{2^n - 1}})
    [] name = "DIAG" -> << l, IF Index(l, lr) = 0 THEN 0 ELSE NormPh(6 * p[Index(l, lr)]) >>
    \* multiplexed rotations: p = <<target>> \o thetas; select index = the other qubits in order, qubit 0 most significant
    [] name = "MPRZ" -> LET t == p[1] + 1  s == BitsIndex(l, t, Len(l)) IN << l, RZAct(p[s + 2], l[t])[2] >>
    [] name = "MPRY" -> LET t == p[1] + 1  s == BitsIndex(l, t, Len(l))  g == RYAct(p[s + 2] \div 4, l[t])
                        IN << [i \in 1..Len(l) |-> IF i = t THEN g[1][1] ELSE l[i]], g[2] >>
Gate(name, p, l, lr) ==
  IF name \in GenericNames THEN GateN(name, p, l, lr)
  ELSE IF Len(l) = 1 THEN Gate1(name, p, l[1], lr[1])
  ELSE IF Len(l) = 2 THEN Gate2(name, p, l[1], l[2], lr[1], lr[2])
  ELSE IF Len(l) = 3 THEN Gate3(name, p, l[1], l[2], l[3])
  ELSE Gate4(name, p, l[1], l[2], l[3], l[4])

\* number of real parameters of a named gate (p as given in an op record: constructor arguments first)
ParamArity(name, p) ==
  CASE name \in {"RZ", "U1", "RX", "RY", "CP", "CRZ", "RZZ", "CRX", "CRY", "CCP", "RXX", "RYY", "ACP"} -> 1
    [] name \in {"FSIM", "U1q", "U2"} -> 2
    [] name = "U3" -> 3
    [] name = "CU" -> 4
    [] name = "DIAG" -> Len(p)
    [] name \in {"MPRZ", "MPRY"} -> Len(p) - 1
    [] OTHER -> 0
\* where the real parameters start inside p
ParamOffset(name) == IF name \in {"MPRZ", "MPRY"} THEN 1 ELSE 0

\* table of a named gate on radixes lr
GateTable(name, p, lr) ==
  TLCEval([b \in 1..Dim(lr) |-> LET g == Gate(name, p, Digits(b - 1, lr), lr)
                                IN [idx |-> Index(g[1], lr), ph |-> NormPh(g[2])]])

\* Controlled(T, cr, levels, tr): controls first; active iff every control digit is in its level set
Controlled(T, cr, levels, tr) ==
  LET r == cr \o tr  nc == Len(cr)  n == Dim(r) IN
  TLCEval([b \in 1..n |->
     LET d == Digits(b - 1, r)
         active == \A i \in 1..nc : \E j \in 1..Len(levels[i]) : levels[i][j] = d[i]
         tb == Index(SubSeq(d, nc + 1, Len(r)), tr)
     IN IF active THEN [idx |-> (b - 1 - tb) + T[tb + 1].idx, ph |-> T[tb + 1].ph] ELSE [idx |-> b - 1, ph |-> 0]])

\* Embedded(T, ir, or, maps): T acts on inner radixes ir; level j of inner qudit i is level maps[i][j+1] of the outer
\* qudit (radixes or); every basis state with some digit outside its map is left alone.
Embedded(T, ir, or, maps) ==
  TLCEval([b \in 1..Dim(or) |->
     LET d == Digits(b - 1, or)
         inside == \A i \in 1..Len(or) : \E j \in 1..Len(maps[i]) : maps[i][j] = d[i]
     IN IF ~inside THEN [idx |-> b - 1, ph |-> 0]
        ELSE LET e == [i \in 1..Len(or) |-> (CHOOSE j \in 1..Len(maps[i]) : maps[i][j] = d[i]) - 1]
                 o == T[Index(e, ir) + 1]
                 od == Digits(o.idx, ir)
             IN [idx |-> Index([i \in 1..Len(or) |-> maps[i][od[i] + 1]], or), ph |-> o.ph]])
\* the same operator times the global phase g
PhaseMul(T, g) == TLCEval([b \in 1..Len(T) |-> [idx |-> T[b].idx, ph |-> NormPh(T[b].ph + g)]])

\* ---------------------------------------------------------- circuits
\* An op is [g |-> name | "TABLE" | "BLOCK", p |-> params, loc |-> 0-based qudits (any order),
\*            t |-> table (for TABLE: a table on the local radixes),
\*            ops |-> inner ops (for BLOCK: local qudit numbering 0..Len(loc)-1)].
\* State st = <<digits, phase>>.
RECURSIVE ApplyOp(_, _, _)
ApplyOp(op, r, st) ==
  LET loc == op.loc
      l  == [i \in 1..Len(loc) |-> st[1][loc[i] + 1]]
      lr == [i \in 1..Len(loc) |-> r[loc[i] + 1]]
      g  == IF op.g = "TABLE"
              THEN LET e == op.t[Index(l, lr) + 1] IN << Digits(e.idx, lr), e.ph >>
            ELSE IF op.g = "BLOCK"
              THEN LET RECURSIVE Run(_, _)
                       \* (the IF forces the new state before recursing: TLC passes arguments lazily and an unforced
                       \*  accumulator becomes a chain of thunks as deep as the circuit is long)
                       Run(k, s) == IF k > Len(op.ops) THEN s
                                    ELSE LET s2 == ApplyOp(op.ops[k], lr, s) IN IF s2[2] >= 0 THEN Run(k + 1, s2) ELSE s2
                   IN Run(1, <<l, 0>>)
            ELSE Gate(op.g, op.p, l, lr)
      d2 == TLCEval([q \in 1..Len(r) |-> IF \E i \in 1..Len(loc) : loc[i] + 1 = q
                                 THEN g[1][CHOOSE i \in 1..Len(loc) : loc[i] + 1 = q] ELSE st[1][q]])
  IN << d2, NormPh(st[2] + g[2]) >>
RECURSIVE SemRec(_, _, _, _)
SemRec(ops, r, st, k) == IF k > Len(ops) THEN st
                         ELSE LET s2 == ApplyOp(ops[k], r, st) IN IF s2[2] >= 0 THEN SemRec(ops, r, s2, k + 1) ELSE s2   \* IF: forces s2, see Run
Sem(ops, r, b) == LET s == SemRec(ops, r, <<Digits(b, r), 0>>, 1) IN [idx |-> Index(s[1], r), ph |-> s[2]]
SemTable(ops, r) == TLCEval([b \in 1..Dim(r) |-> Sem(ops, r, b - 1)])

\* An observation of the implementation: sequence over basis index of [idx, ph, within];
\* within = the observed column is, numerically, that basis vector times that phase class.
ObsOK(obs) == \A b \in 1..Len(obs) : obs[b].within
ObsTable(obs) == [b \in 1..Len(obs) |-> [idx |-> obs[b].idx, ph |-> obs[b].ph]]

\* --------------------------------------------------- compilation semantics
\* Expected action of an output circuit on physical basis states obtained by embedding the
\* logical register at positions pi (0-based physical index per logical qudit), all other
\* physical qudits 0, and reading logical qudit i back from physical qudit pf[i].
Embed(ld, pi, width) == [q \in 1..width |-> IF \E i \in 1..Len(pi) : pi[i] + 1 = q
                                             THEN ld[CHOOSE i \in 1..Len(pi) : pi[i] + 1 = q] ELSE 0]
ReadBack(pd, pf) == [i \in 1..Len(pf) |-> pd[pf[i] + 1]]
OthersZero(pd, pf) == \A q \in 1..Len(pd) : (\A i \in 1..Len(pf) : pf[i] + 1 # q) => pd[q] = 0
=============================================================================
