--------------------------- MODULE PassContracts ---------------------------
(* C10: every circuit-rewriting pass preserves its target and establishes its advertised postcondition --
   decided on the exact domain of monomial circuits (Monomial.tla).

   One case = one pass of the catalogue run on one monomial input circuit:
     [pass (catalogue name), opt (constructor options that change the contract: sequences of gate names),
      r (radixes), ops (the INPUT as Monomial op records: this is what the specification evaluates),
      raised (the pass raised on this input),
      obs (the OUTPUT circuit's matrix, contracted by the harness from the output's own operations, global phase of
           column 0 divided out before quantising: sequence of [idx, ph, within]; `within` = numerically that basis
           vector times that phase class within the pass's tolerance: 1e-7 exact passes, 1e-5 numerical ones),
      gin, gout (gate class names of input / output operations, CircuitGates looked into),
      nin, nout (operation counts), qin, qout (per qudit: sequence of operation signatures, CircuitGates unfolded)]

   Clauses:
     pass-failed-on-valid-input   the pass raised on an input of its documented domain
     unitary-changed              Discretise(output) # SemTable(input ops) up to global phase (or not within tolerance)
     source-gate-still-present    a gate the pass promises to remove is in the output
     foreign-gate-introduced      a gate that was not in the input and is not in the advertised target set is in the output
     gate-count-increased         (removal passes) more operations than before
     program-order-changed        (structure-only passes) the per-qudit operation sequences differ

   NOT decided: inputs whose total unitary is not monomial; what "within the success threshold" means for a generic
   unitary (only monomial targets are observed, with the fixed tolerances above).                                         *)
EXTENDS Naturals, Integers, Sequences, FiniteSets, TLC, Json, IOUtils, Monomial

Cases == JsonDeserialize(IOEnv.TRACE_FILE)
VARIABLES tid
C == Cases[tid]

ToSet(s) == {s[i] : i \in 1..Len(s)}
AnyGate == {"*"}                       \* target set "anything"
SQGeneral == {"U3Gate", "VariableUnitaryGate", "U1Gate", "RZGate", "RXGate", "SqrtXGate", "U8Gate", "PauliGate", "U2Gate"}
Rec(src, tgt, removal, structure) == [src |-> src, tgt |-> tgt, removal |-> removal, structure |-> structure]

\* ------------------------------------------------------------------ the catalogue
\* src: gates that must be absent from the output; tgt: gates that may be introduced (gates already in the input may stay);
\* opt.a / opt.b: gate names taken from the constructor arguments of the run (source gates / requested target gates)
Contract(name, opt) ==
  CASE name = "CNOTToCZPass"   -> Rec({"CNOTGate"}, {"CZGate", "HGate"}, FALSE, FALSE)
    [] name = "CZToCNOTPass"   -> Rec({"CZGate"}, {"CNOTGate", "HGate"}, FALSE, FALSE)
    [] name = "CNOTToCYPass"   -> Rec({"CNOTGate"}, {"CYGate", "SGate", "SdgGate"}, FALSE, FALSE)
    [] name = "CYToCNOTPass"   -> Rec({"CYGate"}, {"CNOTGate", "SGate", "SdgGate"}, FALSE, FALSE)
    [] name = "CNOTToCHPass"   -> Rec({"CNOTGate"}, {"CHGate", "RYGate"}, FALSE, FALSE)
    [] name = "CHToCNOTPass"   -> Rec({"CHGate"}, {"CNOTGate", "RYGate"}, FALSE, FALSE)
    [] name = "SwapToCNOTPass" -> Rec({"SwapGate"}, {"CNOTGate"}, FALSE, FALSE)
    \* single-qudit circuit -> one gate / a ZXZXZ sequence: everything else is gone
    [] name = "U3Decomposition" -> Rec(ToSet(C.gin) \ {"U3Gate"}, {"U3Gate"}, FALSE, FALSE)
    [] name = "ZXZXZDecomposition" -> Rec(ToSet(C.gin) \ ToSet(opt.b), ToSet(opt.b), FALSE, FALSE)
    [] name = "GeneralSQDecomposition" -> Rec(ToSet(C.gin) \ ToSet(opt.b), ToSet(opt.b), FALSE, FALSE)
    \* conversion of single-qudit gates: opt.a = the gates that must be converted, opt.b = what they become
    [] name = "ToU3Pass"       -> Rec(ToSet(opt.a), {"U3Gate"}, FALSE, FALSE)
    [] name = "ToVariablePass" -> Rec(ToSet(opt.a), {"VariableUnitaryGate"}, FALSE, FALSE)
    [] name = "BlockConversionPass" -> Rec(ToSet(opt.a), ToSet(opt.b), TRUE, FALSE)
    \* structure-only passes
    [] name = "CompressPass"   -> Rec({}, {}, TRUE, TRUE)
    [] name = "UnfoldPass"     -> Rec({"CircuitGate"}, {}, FALSE, TRUE)
    [] name = "GroupSingleQuditGatePass" -> Rec({}, {"CircuitGate"}, FALSE, TRUE)
    [] name = "QuickPartitioner" -> Rec({}, {"CircuitGate"}, FALSE, TRUE)
    [] name = "QuickPartitioner+UnfoldPass" -> Rec({"CircuitGate"}, {}, FALSE, TRUE)
    [] name = "GroupSingleQuditGatePass+UnfoldPass" -> Rec({"CircuitGate"}, {}, FALSE, TRUE)
    [] name = "ExtendBlockSizePass" -> Rec({}, {"CircuitGate"}, FALSE, TRUE)
    \* multi-qudit gates stay, single-qudit ones become the general gate of the gate set (opt.b)
    [] name = "FillSingleQuditGatesPass" -> Rec(ToSet(opt.a), ToSet(opt.b), FALSE, FALSE)
    \* removal passes: nothing new, never more operations
    [] name = "ScanningGateRemovalPass" -> Rec({}, {}, TRUE, FALSE)
    [] name = "IterativeScanningGateRemovalPass" -> Rec({}, {}, TRUE, FALSE)
    [] name = "TreeScanningGateRemovalPass" -> Rec({}, {}, TRUE, FALSE)
    [] name = "ExhaustiveGateRemovalPass" -> Rec({}, {}, TRUE, FALSE)
    [] name = "SubstitutePass" -> Rec({}, ToSet(opt.b), FALSE, FALSE)
    \* analytic decompositions of a unitary block
    [] name = "ExtractDiagonalPass" -> Rec({}, {"DiagonalGate", "VariableUnitaryGate", "CNOTGate"}, FALSE, FALSE)
    [] name = "WalshDiagonalSynthesisPass" -> Rec(ToSet(C.gin), {"CNOTGate", "RZGate"}, FALSE, FALSE)
    [] name = "QSDPass" -> Rec(ToSet(opt.a), ToSet(opt.b), FALSE, FALSE)
    [] name = "FullQSDPass" -> Rec(ToSet(opt.a), ToSet(opt.b), FALSE, FALSE)
    [] name = "BlockZXZPass" -> Rec(ToSet(opt.a), ToSet(opt.b), FALSE, FALSE)
    [] name = "FullBlockZXZPass" -> Rec(ToSet(opt.a), ToSet(opt.b), FALSE, FALSE)
    [] name = "MGDPass" -> Rec(ToSet(opt.a), ToSet(opt.b), FALSE, FALSE)
    \* retargeting: the gates named at construction are replaced by the requested ones plus general single-qudit gates
    [] name = "Rebase2QuditGatePass" -> Rec(ToSet(opt.a), ToSet(opt.b), FALSE, FALSE)
    [] name = "AutoRebase2QuditGatePass" -> Rec(ToSet(opt.a), ToSet(opt.b), FALSE, FALSE)
    [] OTHER -> Rec({"?unknown-pass"}, {}, FALSE, FALSE)

Known(name) == Contract(name, C.opt).src # {"?unknown-pass"}

\* ------------------------------------------------------------------ verdict
Expected == TLCEval(SemTable(C.ops, C.r))
Verdict ==
  LET K == Contract(C.pass, C.opt)  out == ToSet(C.gout)  gi == ToSet(C.gin) IN
  IF ~Known(C.pass) THEN "pass-not-in-catalogue"
  ELSE IF C.raised THEN "pass-failed-on-valid-input"
  ELSE IF ~ObsOK(C.obs) \/ Len(C.obs) # Dim(C.r) THEN "unitary-changed"
  ELSE IF ~SameUpToPhase(ObsTable(C.obs), Expected) THEN "unitary-changed"
  ELSE IF K.src \cap out # {} THEN "source-gate-still-present"
  ELSE IF K.tgt # AnyGate /\ (out \ gi) \ K.tgt # {} THEN "foreign-gate-introduced"
  ELSE IF K.removal /\ C.nout > C.nin THEN "gate-count-increased"
  ELSE IF K.structure /\ C.qout # C.qin THEN "program-order-changed"
  ELSE "ok"

Init == tid \in 1..Len(Cases)
Next == UNCHANGED tid
Spec == Init /\ [][Next]_tid
Check == LET v == Verdict IN IF v = "ok" THEN TRUE ELSE PrintT(<<"VERDICT", tid, 0, v>>)
=============================================================================
