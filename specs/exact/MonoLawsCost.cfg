SPECIFICATION SpecTables
INVARIANT TypeTables
INVARIANT CostLaws
CONSTANTS
  MaxDim = 3
  PhaseGen = 24
  MaxOps = 0
  Regs <- NoRegs
CHECK_DEADLOCK FALSE
