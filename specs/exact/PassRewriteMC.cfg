SPECIFICATION Spec
CONSTANTS
  MaxOps = 3
  MaxLen = 6
INVARIANTS
  SemPreserved
  SemPreservedUpToPhase
  WellFormed
VIEW View
CHECK_DEADLOCK FALSE
