SPECIFICATION Spec
CONSTANTS
  MaxOps = 3
  MaxLen = 6
INVARIANTS
  SemPreserved
  OrigSem
  WellFormed
VIEW View
CHECK_DEADLOCK FALSE
