SPECIFICATION SpecCircuits
INVARIANT CircuitLaws
CONSTANTS
  MaxDim = 2
  PhaseGen = 12
  MaxOps = 2
  Regs <- Regs3
CHECK_DEADLOCK FALSE
