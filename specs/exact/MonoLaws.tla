------------------------------ MODULE MonoLaws ------------------------------
(* Model checking of the algebra the exact-domain oracles (C06, C18, C19) rely on.

   The oracle of those checks is a set of TLA+ definitions in Monomial.tla (Compose, Inverse, Power,
   Kron, Controlled, Embedded, ApplyOp / Sem / SemTable with nested BLOCK ops, SameUpToPhase).  A
   wrong definition there would silently turn into wrong verdicts, so the definitions are
   themselves model-checked here against the algebraic laws they have to satisfy:

   * SpecTables  -- the state is a pair of monomial tables (A, B) of equal dimension <= MaxDim with phases
                    in the subgroup Phases of Z_48; starting from (Ident, Ident) every generator of the
                    monomial group (adjacent transpositions, one phase generator per basis state) is
                    composed onto either component, so TLC explores the whole group x group.
                    Invariants: GateLaws (C18), CostLaws (C19).
   * SpecCircuits -- the state is a circuit (sequence of ops over the register Regs) grown one op at a
                    time from the alphabet Alphabet(r) up to MaxOps ops.  Invariants: CircuitLaws (C06).  *)
EXTENDS Naturals, Integers, Sequences, FiniteSets, TLC, Monomial

CONSTANTS MaxDim,      \* tables of dimension 1..MaxDim
          PhaseGen,    \* Phases = multiples of PhaseGen (a divisor of 48)
          MaxOps,      \* circuits of at most MaxOps operations
          Regs         \* set of registers (radix sequences) for SpecCircuits

VARIABLES A, B, ops, r
vars == <<A, B, ops, r>>

Phases == {x \in 0..PH - 1 : x % PhaseGen = 0}

\* ------------------------------------------------------------------ SpecTables
Transp(n, i) == [b \in 1..n |-> [idx |-> (IF b = i THEN i + 1 ELSE IF b = i + 1 THEN i ELSE b) - 1, ph |-> 0]]
PhaseAt(n, i) == [b \in 1..n |-> [idx |-> b - 1, ph |-> IF b = i THEN PhaseGen ELSE 0]]
Gens(n) == {Transp(n, i) : i \in 1..n - 1} \cup {PhaseAt(n, i) : i \in 1..n}

InitTables == /\ \E n \in 1..MaxDim : A = Ident(n) /\ B = Ident(n)
              /\ ops = <<>> /\ r = <<2>>
\* MaxOps = 0: both components move (all pairs); MaxOps = -1: only A moves and B is the fixed table Twist(A) of it
Twist(T) == Compose(Transp(Len(T), 1), Compose(T, PhaseAt(Len(T), Len(T))))
NextTables == /\ \E g \in Gens(Len(A)) :
                   IF MaxOps = 0 THEN (A' = Compose(g, A) /\ B' = B) \/ (B' = Compose(g, B) /\ A' = A)
                   ELSE A' = Compose(g, A) /\ B' = Twist(A')
              /\ UNCHANGED <<ops, r>>
SpecTables == InitTables /\ [][NextTables]_vars

NA == Len(A)
TypeTables == IsTable(A) /\ IsTable(B) /\ Len(A) = Len(B) /\ \A b \in 1..NA : A[b].ph \in Phases /\ B[b].ph \in Phases

\* ---- laws used by C18 (composition clause) and by every SemTable user
GroupLaws ==
  /\ IsTable(Compose(A, B)) /\ IsTable(Inverse(A))
  /\ SameExactly(Compose(A, Inverse(A)), Ident(NA)) /\ SameExactly(Compose(Inverse(A), A), Ident(NA))
  /\ SameExactly(Inverse(Inverse(A)), A)
  /\ SameExactly(Inverse(Compose(A, B)), Compose(Inverse(B), Inverse(A)))
  /\ SameExactly(Compose(A, Ident(NA)), A) /\ SameExactly(Compose(Ident(NA), A), A)
  \* associativity, the third table being each generator and B composed with A
  /\ \A g \in Gens(NA) \cup {Compose(B, A)} : SameExactly(Compose(Compose(A, B), g), Compose(A, Compose(B, g)))
PowerLaws ==
  LET P == TLCEval([k \in -7..8 |-> Power(A, k)]) IN
  /\ SameExactly(P[0], Ident(NA)) /\ SameExactly(P[1], A) /\ SameExactly(P[-1], Inverse(A))
  /\ \A j, k \in -3..4 : SameExactly(P[j + k], Compose(P[j], P[k]))
  /\ \A k \in 0..4 : SameExactly(P[-k], Inverse(P[k]))
KronLaws ==
  /\ IsTable(Kron(A, B)) /\ Len(Kron(A, B)) = NA * NA
  /\ SameExactly(Kron(A, Ident(1)), A) /\ SameExactly(Kron(Ident(1), A), A)
  /\ SameExactly(Kron(Compose(A, B), Compose(B, A)), Compose(Kron(A, B), Kron(B, A)))          \* mixed product
  /\ SameExactly(Inverse(Kron(A, B)), Kron(Inverse(A), Inverse(B)))
  \* Kron is SemTable of the two tables on neighbouring qudits (only when NA is a legal radix)
  /\ NA >= 2 => SameExactly(Kron(A, B), SemTable(<<[g |-> "TABLE", p |-> <<0>>, loc |-> <<0>>, t |-> A, ops |-> <<>>],
                                                   [g |-> "TABLE", p |-> <<0>>, loc |-> <<1>>, t |-> B, ops |-> <<>>]>>, <<NA, NA>>))
Subsets(S) == SUBSET S
LevelSeq(S) == CHOOSE s \in [1..Cardinality(S) -> S] : \A i, j \in 1..Cardinality(S) : i # j => s[i] # s[j]
ControlledLaws ==
  NA >= 2 =>
  \A cr \in {2, 3} :
    LET all == LevelSeq(0..cr - 1) IN
    /\ SameExactly(Controlled(A, <<cr>>, <<all>>, <<NA>>), Kron(Ident(cr), A))                \* all levels active = uncontrolled
    /\ \A L \in (Subsets(0..cr - 1) \ {{}}) :
         LET lv == LevelSeq(L)
             CA == Controlled(A, <<cr>>, <<lv>>, <<NA>>)
             CB == Controlled(B, <<cr>>, <<lv>>, <<NA>>)
         IN /\ IsTable(CA)
            /\ SameExactly(Controlled(Compose(A, B), <<cr>>, <<lv>>, <<NA>>), Compose(CA, CB))
            /\ SameExactly(Inverse(CA), Controlled(Inverse(A), <<cr>>, <<lv>>, <<NA>>))
            \* inactive control digits leave the state alone, active ones apply A to the target
            /\ \A c \in 0..cr - 1 : \A b \in 0..NA - 1 :
                 CA[c * NA + b + 1] = IF c \in L THEN [idx |-> c * NA + A[b + 1].idx, ph |-> A[b + 1].ph]
                                     ELSE [idx |-> c * NA + b, ph |-> 0]
            \* complementary level sets multiply to the uncontrolled gate
            /\ L # 0..cr - 1 =>
                 SameExactly(Compose(CA, Controlled(A, <<cr>>, <<LevelSeq((0..cr - 1) \ L)>>, <<NA>>)), Kron(Ident(cr), A))
    \* two controls = control of a control
    /\ SameExactly(Controlled(A, <<cr, 2>>, <<<<cr - 1>>, <<1>>>>, <<NA>>),
                   Controlled(Controlled(A, <<2>>, <<<<1>>>>, <<NA>>), <<cr>>, <<<<cr - 1>>>>, <<2, NA>>))
EmbeddedLaws ==
  NA >= 2 =>
  /\ SameExactly(Embedded(A, <<NA>>, <<NA>>, <<[i \in 1..NA |-> i - 1]>>), A)                      \* identity level map
  /\ \A o \in NA..4 : \A m \in {f \in [1..NA -> 0..o - 1] : \A i, j \in 1..NA : i # j => f[i] # f[j]} :
       LET EA == Embedded(A, <<NA>>, <<o>>, <<m>>) IN
       /\ IsTable(EA)
       /\ SameExactly(Embedded(Compose(A, B), <<NA>>, <<o>>, <<m>>), Compose(EA, Embedded(B, <<NA>>, <<o>>, <<m>>)))
       /\ \A b \in 0..NA - 1 : EA[m[b + 1] + 1] = [idx |-> m[A[b + 1].idx + 1], ph |-> A[b + 1].ph]
       /\ \A lvl \in 0..o - 1 : (\A i \in 1..NA : m[i] # lvl) => EA[lvl + 1] = [idx |-> lvl, ph |-> 0]
GateLaws == TypeTables /\ GroupLaws /\ PowerLaws /\ KronLaws /\ ControlledLaws /\ EmbeddedLaws

\* ---- laws used by C19 (zero set of the cost) and C06 (equality of tables)
\* "the Hilbert-Schmidt overlap has full modulus": every column agrees in index and all phase differences are equal
FullOverlap(X, Y) == /\ \A b \in 1..Len(X) : X[b].idx = Y[b].idx
                     /\ \A a, b \in 1..Len(X) : NormPh(X[a].ph - Y[a].ph) = NormPh(X[b].ph - Y[b].ph)
CostLaws ==
  /\ SameUpToPhase(A, A)
  /\ SameUpToPhase(A, B) <=> SameUpToPhase(B, A)
  /\ SameUpToPhase(A, B) <=> FullOverlap(A, B)
  /\ SameUpToPhase(A, B) <=> \E g \in 0..PH - 1 : SameExactly(A, PhaseMul(B, g))
  /\ SameUpToPhase(A, B) <=> SameUpToPhase(Compose(Inverse(B), A), Ident(NA))
  /\ SameExactly(A, B) => SameUpToPhase(A, B)
  /\ \A g \in {0, 1, PhaseGen, 17, 47} : SameUpToPhase(PhaseMul(A, g), A) /\ (SameExactly(PhaseMul(A, g), A) <=> g = 0)
  \* congruence: composing both sides with the same table on either side keeps the relation (and its negation)
  /\ \A X \in Gens(NA) \cup {A, B} : /\ SameUpToPhase(A, B) <=> SameUpToPhase(Compose(X, A), Compose(X, B))
                                    /\ SameUpToPhase(A, B) <=> SameUpToPhase(Compose(A, X), Compose(B, X))
  \* transitivity through the third table Compose(B, A)
  /\ LET T == Compose(B, A) IN SameUpToPhase(A, B) /\ SameUpToPhase(B, T) => SameUpToPhase(A, T)

\* ------------------------------------------------------------------ SpecCircuits
Op(g, p, loc) == [g |-> g, p |-> p, loc |-> loc, t |-> <<[idx |-> 0, ph |-> 0]>>, ops |-> <<>>]
Perms(S) == {s \in [1..Cardinality(S) -> S] : \A i, j \in 1..Cardinality(S) : i # j => s[i] # s[j]}
Locs(rr, k) == UNION {Perms(S) : S \in {T \in SUBSET (0..Len(rr) - 1) : Cardinality(T) = k}}
\* (MaxDim doubles as the switch for the richer alphabet in SpecCircuits: MaxDim >= 2 adds RZ, CS)
Rich == MaxDim >= 2
Alphabet(rr) ==
  {Op(g, <<0>>, l) : g \in {"X", "T"}, l \in {l \in Locs(rr, 1) : rr[l[1] + 1] = 2}}
  \cup {Op("RZ", <<3>>, l) : l \in {l \in Locs(rr, 1) : Rich /\ rr[l[1] + 1] = 2}}
  \cup {Op(g, <<0>>, l) : g \in {"Shift", "Clock"}, l \in {l \in Locs(rr, 1) : rr[l[1] + 1] = 3}}
  \cup {Op(g, <<0>>, l) : g \in {"CX", "ISWAP"}, l \in {l \in Locs(rr, 2) : rr[l[1] + 1] = 2 /\ rr[l[2] + 1] = 2}}
  \cup {Op("CS", <<0>>, l) : l \in {l \in Locs(rr, 2) : Rich /\ rr[l[1] + 1] = 2 /\ rr[l[2] + 1] = 2}}
  \cup {Op(g, <<0>>, l) : g \in {"CSUM", "CPI"}, l \in {l \in Locs(rr, 2) : rr[l[1] + 1] = 3 /\ rr[l[2] + 1] = 3}}
  \cup {Op("ACP", <<5>>, l) : l \in {l \in Locs(rr, 2) : rr[l[1] + 1] # rr[l[2] + 1]}}
  \cup {Op("CCX", <<0>>, l) : l \in {l \in Locs(rr, 3) : \A i \in 1..3 : rr[l[i] + 1] = 2}}

InitCircuits == /\ r \in Regs /\ ops = <<>> /\ A = Ident(1) /\ B = Ident(1)
NextCircuits == /\ Len(ops) < MaxOps
                /\ \E o \in Alphabet(r) : ops' = Append(ops, o)
                /\ UNCHANGED <<A, B, r>>
SpecCircuits == InitCircuits /\ [][NextCircuits]_vars

\* Sem of a concatenation = Compose of the Sems
ConcatLaw(T0) == \A k \in 0..Len(ops) : SameExactly(T0, Compose(SemTable(SubSeq(ops, k + 1, Len(ops)), r), SemTable(SubSeq(ops, 1, k), r)))
\* Sem is read off column by column; every column is a basis state times a phase
ColumnLaw(T0) == IsTable(T0) /\ Len(T0) = Dim(r) /\ \A b \in 0..Dim(r) - 1 : Sem(ops, r, b) = T0[b + 1]
\* folding a contiguous run of ops into a BLOCK op (on any ordering of any superset of its qudits) keeps the semantics
QuditsOf(s) == UNION {Range(s[i].loc) : i \in 1..Len(s)}
PosIn(loc, q) == CHOOSE i \in 1..Len(loc) : loc[i] = q
Fold(i, j, bl) ==   \* ops[i..j] -> one BLOCK at location bl (inner ops renumbered to positions in bl)
  LET inner == [k \in 1..(j - i + 1) |-> [ops[i + k - 1] EXCEPT !.loc = [x \in 1..Len(@) |-> PosIn(bl, @[x]) - 1]]]
      blk == [g |-> "BLOCK", p |-> <<0>>, loc |-> bl, t |-> <<[idx |-> 0, ph |-> 0]>>, ops |-> inner]
  IN SubSeq(ops, 1, i - 1) \o <<blk>> \o SubSeq(ops, j + 1, Len(ops))
BlockLaw(T0) ==
  \A i \in 1..Len(ops) : \A j \in i..Len(ops) :
    \A S \in {S \in SUBSET (0..Len(r) - 1) : QuditsOf(SubSeq(ops, i, j)) \subseteq S} :
      \A bl \in Perms(S) : SameExactly(T0, SemTable(Fold(i, j, bl), r))
\* a block inside a block
NestLaw(T0) ==
  Len(ops) >= 2 =>
    LET all == [q \in 1..Len(r) |-> q - 1]
        inner1 == [g |-> "BLOCK", p |-> <<0>>, loc |-> all, t |-> <<[idx |-> 0, ph |-> 0]>>, ops |-> SubSeq(ops, 1, 1)]
        outer == [g |-> "BLOCK", p |-> <<0>>, loc |-> all, t |-> <<[idx |-> 0, ph |-> 0]>>, ops |-> <<inner1>> \o SubSeq(ops, 2, Len(ops))]
    IN SameExactly(T0, SemTable(<<outer>>, r))
\* renumbering the qudits by a permutation pi (qudit q becomes pi[q+1]) conjugates the table by the digit permutation
RenumberLaw(T0) ==
  \A pi \in Perms(0..Len(r) - 1) :
    LET r2 == [q \in 1..Len(r) |-> r[(CHOOSE x \in 1..Len(r) : pi[x] = q - 1)]]
        ops2 == [k \in 1..Len(ops) |-> [ops[k] EXCEPT !.loc = [x \in 1..Len(@) |-> pi[@[x] + 1]]]]
        Move(b) == LET d == Digits(b, r) IN Index([q \in 1..Len(r) |-> d[(CHOOSE x \in 1..Len(r) : pi[x] = q - 1)]], r2)
        T2 == SemTable(ops2, r2)
    IN \A b \in 0..Dim(r) - 1 : T2[Move(b) + 1] = [idx |-> Move(T0[b + 1].idx), ph |-> T0[b + 1].ph]
\* a TABLE op with the table of a sub-circuit is that sub-circuit
TableLaw(T0) ==
  \A i \in 1..Len(ops) :
    LET o == ops[i]  lr == [x \in 1..Len(o.loc) |-> r[o.loc[x] + 1]]
        asTable == TLCEval([g |-> "TABLE", p |-> <<0>>, loc |-> o.loc, t |-> GateTable(o.g, o.p, lr), ops |-> <<>>])
    IN SameExactly(T0, SemTable([ops EXCEPT ![i] = asTable], r))
\* appending the inverse circuit (inverse tables in reverse order) gives the identity
InverseLaw(T0) ==
  LET inv == TLCEval([k \in 1..Len(ops) |->
                LET o == ops[Len(ops) + 1 - k]  lr == [x \in 1..Len(o.loc) |-> r[o.loc[x] + 1]]
                IN [g |-> "TABLE", p |-> <<0>>, loc |-> o.loc, t |-> Inverse(GateTable(o.g, o.p, lr)), ops |-> <<>>]])
  IN SameExactly(SemTable(ops \o inv, r), Ident(Dim(r))) /\ SameExactly(SemTable(inv, r), Inverse(T0))
RegsQuick == {<<2, 2>>, <<3, 3>>, <<2, 3>>}
RegsThorough == {<<2, 2>>, <<3, 3>>, <<2, 3>>, <<3, 2>>}
Regs3 == {<<2, 2, 2>>, <<2, 3, 2>>}
NoRegs == {}
InvColumn == ColumnLaw(SemTable(ops, r))
InvConcat == ConcatLaw(SemTable(ops, r))
InvBlock == BlockLaw(SemTable(ops, r))
InvNest == NestLaw(SemTable(ops, r))
InvRenumber == RenumberLaw(SemTable(ops, r))
InvTable == TableLaw(SemTable(ops, r))
InvInverse == InverseLaw(SemTable(ops, r))
CircuitLaws == LET T == SemTable(ops, r) IN ColumnLaw(T) /\ ConcatLaw(T) /\ BlockLaw(T) /\ NestLaw(T) /\ RenumberLaw(T) /\ TableLaw(T) /\ InverseLaw(T)
=============================================================================
