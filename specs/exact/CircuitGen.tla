----------------------------- MODULE CircuitGen -----------------------------
(* Generator of the small circuits of C06: every sequence of at most MaxOps operations over the
   generator alphabet (two one-qudit gates per qudit, one two-qudit gate per ordered pair of qudits,
   one three-qudit gate per ordered triple) for every register of width 1..3 with radixes in {2,3}.
   The harness enumerates the same space in Python; the number of states TLC finds here (and the
   per-register sizes printed below) must equal the size of that enumeration. *)
EXTENDS Naturals, Sequences, FiniteSets, TLC

MaxOps == 3
Registers == UNION {[1..n -> {2, 3}] : n \in 1..3}
Qudits(r) == 0..Len(r) - 1
Alpha(r) ==
  {<<q, g>> : q \in Qudits(r), g \in 1..2}
  \cup {<<a, b, 0>> : <<a, b>> \in {p \in Qudits(r) \X Qudits(r) : p[1] # p[2]}}
  \cup {<<a, b, c, 0>> : <<a, b, c>> \in {p \in Qudits(r) \X Qudits(r) \X Qudits(r) : p[1] # p[2] /\ p[1] # p[3] /\ p[2] # p[3]}}

VARIABLES r, ops
Init == r \in Registers /\ ops = <<>>
Next == Len(ops) < MaxOps /\ \E x \in Alpha(r) : ops' = Append(ops, x) /\ r' = r
Spec == Init /\ [][Next]_<<r, ops>>

RECURSIVE Pow(_, _)
Pow(a, k) == IF k = 0 THEN 1 ELSE a * Pow(a, k - 1)
RECURSIVE Size(_, _)
Size(a, k) == IF k = 0 THEN 1 ELSE Pow(a, k) + Size(a, k - 1)
ASSUME \A rr \in Registers : PrintT(<<"COUNT", rr, Size(Cardinality(Alpha(rr)), MaxOps)>>)
TypeOK == Len(ops) <= MaxOps
=============================================================================
