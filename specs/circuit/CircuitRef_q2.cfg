SPECIFICATION Spec
CONSTANTS
 InitQ = 2
 MinQ = 1
 MaxQ = 3
 MaxLive = 3
 MaxArity = 2
 MaxSub = 2
 MaxNest = 2
 Radixes = {2, 3}
 AllVariants = TRUE
 MaxDepth = 4
 Emit = FALSE
CONSTRAINT Bound
INVARIANT NoEmptyCycle
INVARIANT OpsAtLoc
INVARIANT RadixOK
INVARIANT ActionProperty
INVARIANT StructureOnly
INVARIANT Sanity
INVARIANT Emitted
CHECK_DEADLOCK FALSE
