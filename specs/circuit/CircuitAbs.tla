------------------------------ MODULE CircuitAbs ------------------------------
(* L1 trace judge for C04 and C05 (batch, total verdict).

   Input (IOEnv.TRACE_FILE): a JSON list of histories recorded from the real bqskit.ir.Circuit through its
   public read API only (harness/circuit_rec.py):
     history = [drift (BOOLEAN), snaps (Seq of snapshots), steps (Seq of step)]
     step    = [call (record, see CircuitOps), b, a (indices into snaps: circuit before / after the call),
                exc (exception class name, "" if the call returned), views (what the read API reported on a)]
   Every step is judged on its own, from the implementation's own before-state (the reference is
   re-synchronised to the implementation's layout after every step), so a layout the reference would not
   have chosen is never a verdict.  Per step at most one C04 line and one C05 line is printed:
       <<"VERDICT", tid, l, clause, "C04"|"C05">>
   and, for histories with drift = TRUE (replays of CircuitRef transitions), <<"DRIFT", tid, l, call name>>
   when the implementation's layout differs from the reference layout Ref(call, before).

   C04 clauses: program-order (per-qudit order after the call is not in the documented relation to the order
                before it: Acceptable), valid-call-rejected (a call with valid arguments raised a documented
                exception instead of having its effect).
                L1 is silent where the documentation is: calls whose arguments it declares invalid but that
                returned normally, and calls in the "unspec" class, are only required to keep program order
                if they are structure-only calls.
   C05 clauses, on the state after every call (also after a rejected one): view-raised, empty-cycle,
                op-not-exactly-at-its-location, op-radix-mismatch, num_operations, num_cycles,
                next-prev-disagree-with-grid, front-rear, first_on-last_on, gate_counts, num_params,
                coupling_graph, active_qudits, depth, iteration-count, iteration-order;
                internal-error-on-valid-call (consistent circuit, arguments not declared invalid, exception outside
                the documented ValueError / IndexError / TypeError family). *)
EXTENDS CircuitOps, Json, IOUtils

Traces == JsonDeserialize(IOEnv.TRACE_FILE)
VARIABLES tid, l
vars == <<tid, l>>
T == Traces[tid]
S == T.steps[l]
Documented == {"ValueError", "IndexError", "TypeError"}
StructureOnlyNames == {"fold", "unfold", "batch_unfold", "unfold_all", "straighten", "compress", "copy", "set_params"}

RadixBad(X) == \/ Len(X.radix) # X.nq
               \/ \E id \in LiveIds(X) : LET o == X.ops[id] IN
                    \/ Len(o.rad) # Len(o.loc)
                    \/ \E i \in 1..Len(o.loc) : o.loc[i] \in 0..X.nq - 1 /\ o.rad[i] # X.radix[o.loc[i] + 1]

DagBad(X, V) ==
  \E i \in 1..Len(V.dag) :
     LET d == V.dag[i] IN
     \/ ~(d.c + 1 \in 1..NC(X) /\ d.q \in 0..X.nq - 1)
     \/ LET id == At(X, d.c + 1, d.q) IN
        \/ id = 0
        \/ Range(d.next) # NextSet(X, d.c + 1, id) \/ Range(d.prev) # PrevSet(X, d.c + 1, id)
        \/ Len(d.next) # Cardinality(Range(d.next)) \/ Len(d.prev) # Cardinality(Range(d.prev))

\* iteration order is compatible with every qudit's timeline: the operations touching q come by increasing cycle
IterOrderBad(X, it) ==
  \E q \in 0..X.nq - 1 :
     LET s == SelectSeq(it, LAMBDA p : q \in Range(X.ops[At(X, p[1] + 1, p[2])].loc)) IN
     \E k \in 1..Len(s) - 1 : s[k][1] >= s[k + 1][1]

WellFormed(X) == ~HasEmptyCycle(X) /\ OpsAtLocation(X) /\ ~RadixBad(X)

\* Structural clauses are charged to the call that introduced the defect (Bf = state before the call); a defect
\* that was already there is not reported again, and the remaining views are still compared where they make sense.
ViewVerdict(Bf, X, V) ==
  IF V.verr # "" THEN "view-raised"
  ELSE IF HasEmptyCycle(X) /\ ~HasEmptyCycle(Bf) THEN "empty-cycle"
  ELSE IF ~OpsAtLocation(X) THEN (IF OpsAtLocation(Bf) THEN "op-not-exactly-at-its-location" ELSE "ok")
  ELSE IF RadixBad(X) /\ ~RadixBad(Bf) THEN "op-radix-mismatch"
  ELSE IF V.num_operations # NumOps(X) THEN "num_operations"
  ELSE IF V.num_cycles # NC(X) THEN "num_cycles"
  ELSE IF Len(V.iter) # NumOps(X) \/ Range(V.iter) # OpPoints(X) THEN "iteration-count"
  ELSE IF IterOrderBad(X, V.iter) THEN "iteration-order"
  ELSE IF DagBad(X, V) \/ {<<V.dag[i].c, V.dag[i].q>> : i \in 1..Len(V.dag)} # OpPoints(X) THEN "next-prev-disagree-with-grid"
  ELSE IF Range(V.front) # Front(X) \/ Range(V.rear) # Rear(X) THEN "front-rear"
  ELSE IF \E q \in 0..X.nq - 1 : V.first_on[q + 1] # FirstOn(X, q) \/ V.last_on[q + 1] # LastOn(X, q) THEN "first_on-last_on"
  ELSE IF {[g |-> GateDesc(V.gate_counts[i].g), n |-> V.gate_counts[i].n] : i \in 1..Len(V.gate_counts)} # GateCounts(X)
          \/ Len(V.gate_counts) # Cardinality(GateCounts(X)) THEN "gate_counts"
  ELSE IF V.num_params # NumParams(X) THEN "num_params"
  ELSE IF Range(V.edges) # CouplingEdges(X) THEN "coupling_graph"
  ELSE IF V.active # SetToSeq(ActiveQudits(X)) THEN "active_qudits"
  ELSE IF V.depth # Depth(X) THEN "depth"
  ELSE "ok"

\* C04.  The property speaks about calls on a consistent circuit: once C05 has reported an inconsistent state,
\* exceptions of later calls are not judged; program order still is, as long as operations sit at their locations
\* and on qudits of their radix (a radix mismatch makes calls reject or skip operations they would otherwise edit).
V4(s, B, A) ==
  LET v == Validity(s.call, B) IN
  IF ~OpsAtLocation(B) \/ RadixBad(B) THEN "ok"
  ELSE IF s.exc # "" THEN (IF v = "valid" /\ s.exc \in Documented /\ WellFormed(B) THEN "valid-call-rejected" ELSE "ok")
  ELSE IF v = "valid" THEN (IF Acceptable(s.call, B, A) THEN "ok" ELSE "program-order")
  ELSE IF s.call.name \in StructureOnlyNames /\ PerQudit(A) # PerQudit(B) THEN "program-order"
  ELSE "ok"

\* C05.  Whether a rejected call leaves the circuit unchanged is not decided (batch calls are documented nowhere as
\* atomic); the views of the state it leaves behind are judged like any other state.
\* After an exception outside the documented family the object may be half-updated: its views are not judged.
V5(s, B, A) ==
  IF s.exc # "" /\ s.exc \notin Documented
    THEN (IF WellFormed(B) /\ Validity(s.call, B) # "invalid" THEN "internal-error-on-valid-call" ELSE "ok")
  ELSE ViewVerdict(B, A, s.views)

Drifted(s, B, A) ==
  /\ T.drift /\ s.exc = "" /\ Validity(s.call, B) = "valid"
  /\ ~HasEmptyCycle(B) /\ OpsAtLocation(B)
  /\ Layout(A) # Layout(Ref(s.call, B))

Init == tid \in 1..Len(Traces) /\ l = 1
Next == l < Len(T.steps) /\ l' = l + 1 /\ tid' = tid
Spec == Init /\ [][Next]_vars

Prop == IOEnv.PROP            \* "C04" | "C05" | "both": which family this run decides
Check ==
  IF Len(T.steps) = 0 THEN TRUE
  ELSE LET s == S  B == T.snaps[s.b]  A == T.snaps[s.a]
           v4 == IF Prop = "C05" THEN "ok" ELSE V4(s, B, A)
           v5 == IF Prop = "C04" THEN "ok" ELSE V5(s, B, A) IN
       /\ IF v4 = "ok" THEN TRUE ELSE PrintT(<<"VERDICT", tid, l, v4, "C04">>)
       /\ IF v5 = "ok" THEN TRUE ELSE PrintT(<<"VERDICT", tid, l, v5, "C05">>)
       /\ IF Drifted(s, B, A) THEN PrintT(<<"DRIFT", tid, l, s.call.name>>) ELSE TRUE
=============================================================================
