----------------------------- MODULE CircuitOps -----------------------------
(* Vocabulary shared by CircuitRef (the reference state machine, model-checked) and CircuitAbs
   (the L1 trace judge).  No variables, no constants.

   A circuit snapshot X is a record
       [nq, radix (Seq), grid (Seq of rows; row = Seq of length nq; entry = index into ops, 0 = idle),
        ops (Seq of operation records)]
   An operation record is
       [tag, kind \in {"gate","block","iblock","barrier"}, loc (Seq of 0-based qudits), np, rad (Seq), body]
   ("iblock": the inverse of a block as one operation (DaggerGate of a CircuitGate); it flattens like a block
    but is not a CircuitGate, so it cannot be unfolded)
   tag  : identity of a leaf.  gate: the TaggedGate tag (negative = the inverse of that gate);
          barrier: BARBASE + width (barriers carry no tag, they are identified by width and by their
          position on every qudit's timeline); block: 0.
   body : for a block, the operations of the nested circuit in simulation order, locations relative
          to the block; <<>> otherwise.
   The same record shape is produced by the recorder (JSON) and by the reference model.

   Three layers are defined here:
     (1) derived views of a snapshot (PerQudit, Next/Prev/Front/Rear/FirstOn/LastOn, Depth, ...);
     (2) Ref*  : the "list of cycles" reference effect of every public editing call on a snapshot,
                 written from the docstrings of bqskit/ir/circuit.py;
     (3) ExpPQ / Acceptable / Validity : the documented effect of a call on the per-qudit program
                 order only (what L1 decides), and which argument values are valid.
   CircuitRef checks with TLC that (2) and (3) agree on every transition of the small model. *)
EXTENDS Naturals, Integers, Sequences, FiniteSets, TLC

BARBASE == 900000
POISON == -999999

Range(s) == {s[i] : i \in 1..Len(s)}
Pos(s, x) == CHOOSE i \in 1..Len(s) : s[i] = x
MaxOf(S) == CHOOSE x \in S : \A y \in S : y <= x
MinOf(S) == CHOOSE x \in S : \A y \in S : x <= y
Rev(s) == [i \in 1..Len(s) |-> s[Len(s) + 1 - i]]
Injective(s) == \A i, j \in 1..Len(s) : i # j => s[i] # s[j]
RECURSIVE CatR(_, _, _)
CatR(f, lo, hi) == IF lo > hi THEN <<>> ELSE f[lo] \o CatR(f, lo + 1, hi)
RECURSIVE SumR(_, _, _)
SumR(f, lo, hi) == IF lo > hi THEN 0 ELSE f[lo] + SumR(f, lo + 1, hi)
InsAt(s, i, e) == SubSeq(s, 1, i - 1) \o <<e>> \o SubSeq(s, i, Len(s))      \* e becomes s[i]
DelAt(s, i) == SubSeq(s, 1, i - 1) \o SubSeq(s, i + 1, Len(s))
RepeatSeq(s, k) == CatR([j \in 1..k |-> s], 1, k)

NoOp == [tag |-> 0, kind |-> "none", loc |-> <<>>, np |-> 0, rad |-> <<>>, body |-> <<>>]
EmptyRow(n) == [i \in 1..n |-> 0]
EmptyX(n, radix) == [nq |-> n, radix |-> radix, grid |-> <<>>, ops |-> <<>>]
NC(X) == Len(X.grid)
At(X, c, q) == X.grid[c][q + 1]                         \* c 1-based row, q 0-based qudit
RowIdle(r) == \A i \in 1..Len(r) : r[i] = 0
LiveIds(X) == {X.grid[c][i] : c \in 1..NC(X), i \in 1..X.nq} \ {0}
RowOf(X, id) == CHOOSE c \in 1..NC(X) : \E i \in 1..X.nq : X.grid[c][i] = id
RowIds(X, c) == {X.grid[c][i] : i \in 1..X.nq} \ {0}

\* ------------------------------------------------------------------ (1) views
\* leaf identities seen on the i-th qudit of o's location, blocks flattened recursively
RECURSIVE Flat(_, _)
Flat(o, i) ==
  IF o.kind \notin {"block", "iblock"} THEN <<o.tag>>
  ELSE LET RECURSIVE Go(_)
           Go(k) == IF k > Len(o.body) THEN <<>>
                    ELSE LET b == o.body[k] IN
                         (IF (i - 1) \in Range(b.loc) THEN Flat(b, Pos(b.loc, i - 1)) ELSE <<>>) \o Go(k + 1)
       IN Go(1)
FlatAll(o) == [i \in 1..Len(o.loc) |-> Flat(o, i)]
Cell(X, c, q) == LET id == At(X, c, q) IN
                 IF id = 0 THEN <<>>
                 ELSE LET o == X.ops[id] IN IF q \in Range(o.loc) THEN Flat(o, Pos(o.loc, q)) ELSE <<POISON>>
PerQ(X, q, lo, hi) == CatR([c \in 1..NC(X) |-> Cell(X, c, q)], lo, hi)
PerQudit(X) == [i \in 1..X.nq |-> PerQ(X, i - 1, 1, NC(X))]
\* per-qudit order with some operations dropped and some replaced (f: id -> operation record)
PQMap(X, Drop, f) ==
  [i \in 1..X.nq |-> CatR([c \in 1..NC(X) |->
      LET id == At(X, c, i - 1) IN
      IF id = 0 \/ id \in Drop THEN <<>>
      ELSE IF id \in DOMAIN f THEN (IF (i - 1) \in Range(f[id].loc) THEN Flat(f[id], Pos(f[id].loc, i - 1)) ELSE <<>>)
      ELSE Cell(X, c, i - 1)], 1, NC(X))]
NoRepl == [x \in {} |-> NoOp]

\* what layout comparison looks at: the same operations in the same cells (indices into ops are arbitrary)
Desc(o) == [tag |-> o.tag, kind |-> o.kind, loc |-> o.loc, flat |-> FlatAll(o)]
Layout(X) == [c \in 1..NC(X) |-> [i \in 1..X.nq |-> IF X.grid[c][i] = 0 THEN NoOp ELSE Desc(X.ops[X.grid[c][i]])]]

\* dependency view derived from the grid
NextRow(X, c, q) == LET S == {d \in c + 1..NC(X) : At(X, d, q) # 0} IN IF S = {} THEN 0 ELSE MinOf(S)
PrevRow(X, c, q) == LET S == {d \in 1..c - 1 : At(X, d, q) # 0} IN IF S = {} THEN 0 ELSE MaxOf(S)
PointAt(X, c, q) == <<c - 1, X.ops[At(X, c, q)].loc[1]>>           \* python point (cycle, first qudit of location)
NextSet(X, c, id) == {PointAt(X, NextRow(X, c, q), q) : q \in {r \in Range(X.ops[id].loc) : NextRow(X, c, r) # 0}}
PrevSet(X, c, id) == {PointAt(X, PrevRow(X, c, q), q) : q \in {r \in Range(X.ops[id].loc) : PrevRow(X, c, r) # 0}}
SuccIds(X, c, id) == {At(X, NextRow(X, c, q), q) : q \in {r \in Range(X.ops[id].loc) : NextRow(X, c, r) # 0}}
RowPairs(X) == UNION {{<<c, id>> : id \in RowIds(X, c)} : c \in 1..NC(X)}            \* <<row, id>> of every operation
OpPoints(X) == {<<p[1] - 1, X.ops[p[2]].loc[1]>> : p \in RowPairs(X)}
NothingBefore(X, c, id) == \A q \in Range(X.ops[id].loc) : \A d \in 1..c - 1 : At(X, d, q) = 0
NothingAfter(X, c, id) == \A q \in Range(X.ops[id].loc) : \A d \in c + 1..NC(X) : At(X, d, q) = 0
Front(X) == {<<p[1] - 1, X.ops[p[2]].loc[1]>> : p \in {r \in RowPairs(X) : NothingBefore(X, r[1], r[2])}}   \* no dependencies
Rear(X) == {<<p[1] - 1, X.ops[p[2]].loc[1]>> : p \in {r \in RowPairs(X) : NothingAfter(X, r[1], r[2])}}     \* nothing after them
OccRows(X, q) == {c \in 1..NC(X) : At(X, c, q) # 0}
FirstOn(X, q) == IF OccRows(X, q) = {} THEN <<>> ELSE PointAt(X, MinOf(OccRows(X, q)), q)
LastOn(X, q) == IF OccRows(X, q) = {} THEN <<>> ELSE PointAt(X, MaxOf(OccRows(X, q)), q)
ActiveQudits(X) == {q \in 0..X.nq - 1 : OccRows(X, q) # {}}
CouplingEdges(X) == UNION {{<<a, b>> \in Range(X.ops[id].loc) \X Range(X.ops[id].loc) : a < b} : id \in LiveIds(X)}
NumOps(X) == Cardinality(RowPairs(X))
NumParamsOf(os) == SumR([k \in 1..Len(os) |-> os[k].np], 1, Len(os))
\* sequence of the ids of row c ordered by lowest qudit (forward scan) / by highest qudit descending (reverse scan)
RowFwd(X, c) == LET S == RowIds(X, c)  fp(id) == MinOf({i \in 1..X.nq : X.grid[c][i] = id})
                IN [k \in 1..Cardinality(S) |-> CHOOSE id \in S : Cardinality({j \in S : fp(j) < fp(id)}) = k - 1]
RowRev(X, c) == LET S == RowIds(X, c)  lp(id) == MaxOf({i \in 1..X.nq : X.grid[c][i] = id})
                IN [k \in 1..Cardinality(S) |-> CHOOSE id \in S : Cardinality({j \in S : lp(j) > lp(id)}) = k - 1]
FwdIds(X) == CatR([c \in 1..NC(X) |-> RowFwd(X, c)], 1, NC(X))
RevIds(X) == CatR([c \in 1..NC(X) |-> RowRev(X, NC(X) + 1 - c)], 1, NC(X))
FwdOps(X) == LET s == FwdIds(X) IN [k \in 1..Len(s) |-> X.ops[s[k]]]
RevOps(X) == LET s == RevIds(X) IN [k \in 1..Len(s) |-> X.ops[s[k]]]
NumParams(X) == NumParamsOf(FwdOps(X))
RECURSIVE DepthFrom(_, _, _)
DepthFrom(X, c, d) ==
  IF c > NC(X) THEN d
  ELSE DepthFrom(X, c + 1, TLCEval([i \in 1..X.nq |->
         LET id == X.grid[c][i] IN
         IF id = 0 THEN d[i] ELSE 1 + MaxOf({d[j + 1] : j \in Range(X.ops[id].loc) \cap (0..X.nq - 1)} \cup {d[i]})]))
Depth(X) == MaxOf(Range(DepthFrom(X, 1, [i \in 1..X.nq |-> 0])) \cup {0})
\* gate table: one entry per distinct gate (identity, kind, width, contents) with its multiplicity
GateDesc(o) == [tag |-> o.tag, kind |-> o.kind, w |-> Len(o.loc), rad |-> o.rad, body |-> o.body]
GateCounts(X) == LET os == FwdOps(X)  ds == TLCEval([k \in 1..Len(os) |-> GateDesc(os[k])]) IN
                 {[g |-> ds[k], n |-> Cardinality({j \in 1..Len(os) : ds[j] = ds[k]})] : k \in 1..Len(os)}

\* structural well-formedness (C05): no idle cycle; every operation occupies exactly its location in one cycle
HasEmptyCycle(X) == \E c \in 1..NC(X) : RowIdle(X.grid[c])
OpsAtLocation(X) ==
  /\ \A p \in RowPairs(X) : LET o == X.ops[p[2]] IN
        Injective(o.loc) /\ {q \in 0..X.nq - 1 : At(X, p[1], q) = p[2]} = Range(o.loc)
  /\ Cardinality(LiveIds(X)) = Cardinality(RowPairs(X))              \* no operation in two cycles

\* ancestors / descendants of a set of operations in the dependency order (ids), the set itself excluded
RECURSIVE DescClose(_, _)
DescClose(X, S) == LET S2 == S \cup UNION {SuccIds(X, RowOf(X, id), id) : id \in S} IN IF S2 = S THEN S ELSE DescClose(X, S2)
Descendants(X, S) == DescClose(X, S) \ S
PredIds(X, c, id) == {At(X, PrevRow(X, c, q), q) : q \in {r \in Range(X.ops[id].loc) : PrevRow(X, c, r) # 0}}
RECURSIVE AncClose(_, _)
AncClose(X, S) == LET S2 == S \cup UNION {PredIds(X, RowOf(X, id), id) : id \in S} IN IF S2 = S THEN S ELSE AncClose(X, S2)
Ancestors(X, S) == AncClose(X, S) \ S

\* ------------------------------------------------------------------ regions
\* a region is a sequence of <<q, lo, hi>> (python: 0-based qudit, inclusive 0-based cycle bounds)
RegQ(R) == {R[k][1] : k \in 1..Len(R)}
RegHas(R, c, q) == \E k \in 1..Len(R) : R[k][1] = q /\ R[k][2] <= c - 1 /\ c - 1 <= R[k][3]      \* c 1-based
RegWellFormed(R) == /\ \A k \in 1..Len(R) : R[k][2] >= 0 /\ R[k][2] <= R[k][3] /\ R[k][1] >= 0
                    /\ \A j, k \in 1..Len(R) : j # k => R[j][1] # R[k][1]
RegInBounds(X, R) == \A k \in 1..Len(R) : R[k][1] < X.nq /\ R[k][3] < NC(X)
RegOps(X, R) == {id \in LiveIds(X) : \E q \in Range(X.ops[id].loc) : RegHas(R, RowOf(X, id), q)}     \* touching the region
RegFully(X, R) == \A id \in RegOps(X, R) : \A q \in Range(X.ops[id].loc) : RegHas(R, RowOf(X, id), q)
\* "for every pair of operations in the region there is no path between them that exits the region"
Convex(X, S) == Descendants(X, S) \cap Ancestors(X, S) = {}
\* the bounding region of a set of operations, as a region value (ascending qudits)
SetToSeq(S) == [k \in 1..Cardinality(S) |-> CHOOSE x \in S : Cardinality({y \in S : y < x}) = k - 1]
Bounding(X, S) ==
  LET Q == UNION {Range(X.ops[id].loc) : id \in S}
      qs == SetToSeq(Q)
      rows(q) == {RowOf(X, id) : id \in {j \in S : q \in Range(X.ops[j].loc)}}
  IN [k \in 1..Len(qs) |-> <<qs[k], MinOf(rows(qs[k])) - 1, MaxOf(rows(qs[k])) - 1>>]

\* ------------------------------------------------------------------ (2) reference effects on the grid
Free(X, c, loc) == \A q \in Range(loc) : At(X, c, q) = 0
LastOcc(X, q) == IF OccRows(X, q) = {} THEN 0 ELSE MaxOf(OccRows(X, q))
Avail(X, loc) == MaxOf({LastOcc(X, q) : q \in Range(loc)}) + 1
PutRow(row, id, loc) == [i \in 1..Len(row) |-> IF (i - 1) \in Range(loc) THEN id ELSE row[i]]
Put(X, c, o) == LET id == Len(X.ops) + 1 IN [X EXCEPT !.ops = Append(@, o), !.grid[c] = PutRow(@, id, o.loc)]
WithRowAt(X, c) == [X EXCEPT !.grid = InsAt(@, c, EmptyRow(X.nq))]
DropRowIfIdle(X, c) == IF c <= NC(X) /\ RowIdle(X.grid[c]) THEN [X EXCEPT !.grid = DelAt(@, c)] ELSE X
DropIdleRows(X) == [X EXCEPT !.grid = SelectSeq(@, LAMBDA r : ~RowIdle(r))]
ClearIds(X, S) == [X EXCEPT !.grid = [c \in 1..NC(X) |-> [i \in 1..X.nq |-> IF X.grid[c][i] \in S THEN 0 ELSE X.grid[c][i]]]]

\* python index handling
InRange(n, i) == -n <= i /\ i < n
Norm(n, i) == IF i < 0 THEN n + i ELSE i
\* insert(cycle_index): "Clamps cycle to be in range"; "if cycle_index was out-of-bounds ... appended ASAP"
\* result: 0-based row, or -1 meaning append
NormIns(n, ci) == IF n = 0 \/ ci >= n THEN -1 ELSE IF ci < -n THEN 0 ELSE Norm(n, ci)
\* list.insert semantics for qudit insertion
NormInsQ(n, i) == IF i >= n THEN n ELSE IF i <= -n THEN 0 ELSE Norm(n, i)

\* append: "Append op to the end of the circuit": the first cycle after everything on its qudits
RefAppend(X, o) == LET c == Avail(X, o.loc) IN Put(IF c > NC(X) THEN WithRowAt(X, c) ELSE X, c, o)
RECURSIVE AppendAll(_, _, _)
AppendAll(X, os, k) == IF k > Len(os) THEN X ELSE AppendAll(RefAppend(X, os[k]), os, k + 1)
\* insert at a (1-based, in-range) row: into it if the slot is free, else a new cycle is opened there
InsertAtRow(X, c, o) == IF Free(X, c, o.loc) THEN Put(X, c, o) ELSE Put(WithRowAt(X, c), c, o)
RECURSIVE InsertAllRev(_, _, _, _)          \* os in forward order; inserted last-first at the same row
InsertAllRev(X, c, os, k) == IF k < 1 THEN X ELSE InsertAllRev(InsertAtRow(X, c, os[k]), c, os, k - 1)
RefInsert(X, ci, o) == LET c0 == NormIns(NC(X), ci) IN IF c0 = -1 THEN RefAppend(X, o) ELSE InsertAtRow(X, c0 + 1, o)

MapLoc(o, loc) == [o EXCEPT !.loc = [i \in 1..Len(o.loc) |-> loc[o.loc[i] + 1]]]
MapAll(os, loc) == [k \in 1..Len(os) |-> MapLoc(os[k], loc)]
BlockOf(sub, loc) == [tag |-> 0, kind |-> "block", loc |-> loc, np |-> NumParams(sub),
                      rad |-> [i \in 1..Len(loc) |-> IF i <= Len(sub.radix) THEN sub.radix[i] ELSE 0], body |-> FwdOps(sub)]
RefAppendCircuit(X, sub, loc, asblock) ==
  IF asblock THEN RefAppend(X, BlockOf(sub, loc)) ELSE AppendAll(X, MapAll(FwdOps(sub), loc), 1)
\* insert_circuit: the sub-circuit's operations, in their own order, at that cycle
RefInsertCircuit(X, ci, sub, loc, asblock) ==
  IF asblock THEN RefInsert(X, ci, BlockOf(sub, loc))
  ELSE LET c0 == NormIns(NC(X), ci)  os == MapAll(FwdOps(sub), loc) IN
       IF c0 = -1 THEN AppendAll(X, os, 1)
       ELSE LET ro == MapAll(Rev(RevOps(sub)), loc) IN InsertAllRev(X, c0 + 1, ro, Len(ro))

\* pop(point): remove the operation; a cycle that becomes idle disappears
RefPopId(X, id) == LET c == RowOf(X, id) IN DropRowIfIdle(ClearIds(X, {id}), c)
RefPop(X, c, q) == RefPopId(X, At(X, c, q))
\* pop(): "defaults to last operation": the operation found last in the last cycle
RefPopLast(X) == LET n == NC(X)  i == MaxOf({j \in 1..X.nq : X.grid[n][j] # 0}) IN RefPopId(X, X.grid[n][i])
RefDrop(X, S) == DropIdleRows(ClearIds(X, S))
PointIds(X, pts) == {At(X, Norm(NC(X), pts[k][1]) + 1, Norm(X.nq, pts[k][2])) : k \in 1..Len(pts)} \ {0}
RefPopCycle(X, ci) == [X EXCEPT !.grid = DelAt(@, Norm(NC(X), ci) + 1)]

\* replace(point, op): same qudit set: in place.  Otherwise the documentation only says "replace the
\* operation at point": the witness computed here is what a list-of-cycles model does (remove, then insert
\* at the same cycle index); L1 accepts the whole relation Acceptable (below).
SameSet(a, b) == Range(a) = Range(b)
RefReplace(X, c, q, o) ==
  LET id == At(X, c, q) IN
  IF SameSet(X.ops[id].loc, o.loc) THEN [X EXCEPT !.ops[id] = o]
  ELSE RefInsert(RefPop(X, c, q), c - 1, o)
\* replace_with_circuit(point, circuit): the circuit's operations take the place of the operation
ReplaceWithOps(X, c, id, os) ==     \* os forward order, already mapped to circuit qudits
  LET X1 == ClearIds(X, {id}) IN
  IF Len(os) = 0 THEN DropRowIfIdle(X1, c) ELSE InsertAllRev(X1, c, os, Len(os))
RefReplaceWithCircuit(X, c, q, sub, asblock) ==
  LET id == At(X, c, q)  loc == X.ops[id].loc IN
  IF asblock THEN [X EXCEPT !.ops[id] = BlockOf(sub, loc)]
  ELSE ReplaceWithOps(X, c, id, MapAll(Rev(RevOps(sub)), loc))
RefUnfold(X, c, q) == LET id == At(X, c, q)  o == X.ops[id] IN ReplaceWithOps(X, c, id, MapAll(o.body, o.loc))
\* unfold_all: rebuilt from the operations in order, blocks replaced by their contents, until no block is left
RECURSIVE RefUnfoldAll(_)
RefUnfoldAll(X) ==
  IF \A id \in LiveIds(X) : X.ops[id].kind # "block" THEN X
  ELSE LET os == FwdOps(X)
           RECURSIVE Go(_, _)
           Go(Y, k) == IF k > Len(os) THEN Y
                       ELSE Go(IF os[k].kind = "block" THEN AppendAll(Y, MapAll(os[k].body, os[k].loc), 1)
                                                        ELSE RefAppend(Y, os[k]), k + 1)
       IN RefUnfoldAll(Go(EmptyX(X.nq, X.radix), 1))

\* qudits
RefInsertQudit(X, idx, r) ==
  LET j == NormInsQ(X.nq, idx)  sh(q) == IF q < j THEN q ELSE q + 1 IN
  [nq |-> X.nq + 1, radix |-> InsAt(X.radix, j + 1, r),
   grid |-> [c \in 1..NC(X) |-> InsAt(X.grid[c], j + 1, 0)],
   ops |-> [k \in 1..Len(X.ops) |-> [X.ops[k] EXCEPT !.loc = [i \in 1..Len(@) |-> sh(@[i])]]]]
RefPopQudit(X, idx) ==
  LET j == Norm(X.nq, idx)
      S == {id \in LiveIds(X) : j \in Range(X.ops[id].loc)}
      X1 == ClearIds(X, S)
      sh(q) == IF q < j THEN q ELSE q - 1 IN
  DropIdleRows([nq |-> X.nq - 1, radix |-> DelAt(X.radix, j + 1),
                grid |-> [c \in 1..NC(X) |-> DelAt(X1.grid[c], j + 1)],
                ops |-> [k \in 1..Len(X.ops) |-> [X.ops[k] EXCEPT !.loc = [i \in 1..Len(@) |-> sh(@[i])]]]])
\* renumber_qudits(perm): "A map from qudit indices to qudit indices": qudit q becomes perm[q]
RefRenumber(X, perm) ==
  [X EXCEPT !.radix = [i \in 1..X.nq |-> X.radix[Pos(perm, i - 1)]],
            !.grid = [c \in 1..NC(X) |-> [i \in 1..X.nq |-> X.grid[c][Pos(perm, i - 1)]]],
            !.ops = [k \in 1..Len(X.ops) |-> [X.ops[k] EXCEPT !.loc = [i \in 1..Len(@) |-> perm[@[i] + 1]]]]]

\* fold(region): the operations of the region become one block at the region's start; operations that
\* have to come before the block (ancestors) keep their cycles in front of it, everything else follows.
RefFoldSet(X, S) ==
  LET c0 == MinOf({RowOf(X, id) : id \in S})
      Q == UNION {Range(X.ops[id].loc) : id \in S}
      qs == SetToSeq(Q)
      rel(o) == [o EXCEPT !.loc = [i \in 1..Len(@) |-> Pos(qs, @[i]) - 1]]
      fs == SelectSeq(FwdIds(X), LAMBDA id : id \in S)
      body == [k \in 1..Len(fs) |-> rel(X.ops[fs[k]])]
      blk == [tag |-> 0, kind |-> "block", loc |-> qs, np |-> NumParamsOf(body),
              rad |-> [i \in 1..Len(qs) |-> X.radix[qs[i] + 1]], body |-> body]
      Anc == {id \in Ancestors(X, S) : RowOf(X, id) >= c0}
      keep(K) == SelectSeq([c \in 1..NC(X) - c0 + 1 |-> [i \in 1..X.nq |->
                     IF X.grid[c0 - 1 + c][i] \in K THEN X.grid[c0 - 1 + c][i] ELSE 0]], LAMBDA r : ~RowIdle(r))
      rowsB == keep(Anc)
      rowsC == keep(LiveIds(X) \ (S \cup Anc))
      X1 == [X EXCEPT !.grid = SubSeq(X.grid, 1, c0 - 1) \o rowsB \o rowsC]
      p == c0 + Len(rowsB)
  IN IF p > NC(X1) THEN Put(WithRowAt(X1, p), p, blk) ELSE InsertAtRow(X1, p, blk)

\* compress / copy-like rebuilds: every operation as early as its qudits allow
RefCompress(X) == AppendAll(EmptyX(X.nq, X.radix), FwdOps(X), 1)
InvTag(t) == IF t >= BARBASE THEN t ELSE -t
RECURSIVE InvOp(_)
InvOp(o) == IF o.kind \in {"block", "iblock"}
            THEN [o EXCEPT !.body = [k \in 1..Len(o.body) |-> InvOp(o.body[Len(o.body) + 1 - k])],
                           !.kind = IF o.kind = "block" THEN "iblock" ELSE "block"]
            ELSE [o EXCEPT !.tag = InvTag(o.tag)]
RefInverse(X) == LET ro == RevOps(X) IN AppendAll(EmptyX(X.nq, X.radix), [k \in 1..Len(ro) |-> InvOp(ro[k])], 1)
RefAdd(X, Y) == AppendAll(RefCompress(X), FwdOps(Y), 1)
RefIAdd(X, Y) == AppendAll(X, FwdOps(Y), 1)
RECURSIVE RefTimes(_, _, _)
RefTimes(Acc, X, k) == IF k <= 0 THEN Acc ELSE RefTimes(AppendAll(Acc, FwdOps(X), 1), X, k - 1)
RefMul(X, k) == RefTimes(EmptyX(X.nq, X.radix), X, k)
RefIMul(X, k) == RefTimes(X, X, k - 1)

\* ------------------------------------------------------------------ (3) documented effect on program order
\* A call is a record [name, ci, q, op, ops, sub, loc, asblock, points, perm, radixes, region, k, via, ret].
InvSeq(s) == [j \in 1..Len(s) |-> InvTag(s[Len(s) + 1 - j])]
AppendPQ(P, o) == [i \in 1..Len(P) |-> IF (i - 1) \in Range(o.loc) THEN P[i] \o Flat(o, Pos(o.loc, i - 1)) ELSE P[i]]
RECURSIVE AppendAllPQ(_, _, _)
AppendAllPQ(P, os, k) == IF k > Len(os) THEN P ELSE AppendAllPQ(AppendPQ(P, os[k]), os, k + 1)
\* op enters before row c (1-based): after everything in rows < c, before everything in rows >= c
SplitPQ(B, c, o) == [i \in 1..B.nq |-> IF (i - 1) \in Range(o.loc)
                                        THEN PerQ(B, i - 1, 1, c - 1) \o Flat(o, Pos(o.loc, i - 1)) \o PerQ(B, i - 1, c, NC(B))
                                        ELSE PerQ(B, i - 1, 1, NC(B))]
InsertPQ(B, ci, o) == LET c0 == NormIns(NC(B), ci) IN IF c0 = -1 THEN AppendPQ(PerQudit(B), o) ELSE SplitPQ(B, c0 + 1, o)

OpOK(B, o) == /\ Len(o.loc) >= 1 /\ Injective(o.loc)
              /\ \A i \in 1..Len(o.loc) : o.loc[i] >= 0 /\ o.loc[i] < B.nq
              /\ Len(o.rad) = Len(o.loc)
              /\ \A i \in 1..Len(o.loc) : o.rad[i] = B.radix[o.loc[i] + 1]
SubOK(B, sub, loc) == /\ Len(loc) = sub.nq /\ Injective(loc)
                      /\ \A i \in 1..Len(loc) : loc[i] >= 0 /\ loc[i] < B.nq
                      /\ \A i \in 1..Len(loc) : sub.radix[i] = B.radix[loc[i] + 1]
PointOK(B, c, q) == InRange(NC(B), c) /\ InRange(B.nq, q)
Occupied(B, c, q) == PointOK(B, c, q) /\ At(B, Norm(NC(B), c) + 1, Norm(B.nq, q)) # 0
IdAt(B, c, q) == At(B, Norm(NC(B), c) + 1, Norm(B.nq, q))               \* python point
SameOp(a, b) == Desc(a) = Desc(b)
SameGate(a, b) == GateDesc(a) = GateDesc(b)
Matches(B, call) == LET s == FwdIds(B) IN
                    SelectSeq(s, LAMBDA id : IF call.via = "gate" THEN SameGate(B.ops[id], call.op) ELSE SameOp(B.ops[id], call.op))
\* Circuit.point() searches cycles in order and, for a gate, qudits in order: the forward scan order

\* "valid" | "invalid" (documented to raise) | "unspec" (documentation does not determine the outcome)
Validity(call, B) ==
  LET n == NC(B) nm == call.name IN
  CASE nm \in {"append", "append_gate", "insert", "insert_gate"} -> IF OpOK(B, call.op) THEN "valid" ELSE "invalid"
    [] nm = "extend" -> IF \A k \in 1..Len(call.ops) : OpOK(B, call.ops[k]) THEN "valid" ELSE "unspec"
    [] nm \in {"append_circuit", "insert_circuit"} -> IF SubOK(B, call.sub, call.loc) THEN "valid" ELSE "invalid"
    [] nm = "pop" -> IF Occupied(B, call.ci, call.q) THEN "valid" ELSE "invalid"
    [] nm = "pop_last" -> IF n > 0 THEN "valid" ELSE "invalid"
    [] nm = "batch_pop" -> IF (\A k \in 1..Len(call.points) : PointOK(B, call.points[k][1], call.points[k][2]))
                              /\ PointIds(B, call.points) # {} THEN "valid" ELSE "invalid"
    [] nm = "remove" -> IF Len(Matches(B, call)) > 0 THEN "valid" ELSE "invalid"
    [] nm = "remove_all" -> IF Len(Matches(B, call)) > 0 THEN "valid" ELSE "unspec"
    [] nm \in {"replace", "replace_gate"} ->
         IF ~Occupied(B, call.ci, call.q) \/ ~OpOK(B, call.op) THEN "invalid"
         ELSE LET old == B.ops[IdAt(B, call.ci, call.q)] IN
              IF Range(old.loc) \cap Range(call.op.loc) = {} THEN "invalid"
              ELSE IF Norm(B.nq, call.q) \in Range(call.op.loc) THEN "valid" ELSE "unspec"
    [] nm = "batch_replace" ->
         IF Len(call.points) # Len(call.ops) THEN "invalid"
         ELSE IF \A k \in 1..Len(call.points) :
                   /\ Occupied(B, call.points[k][1], call.points[k][2]) /\ OpOK(B, call.ops[k])
                   /\ SameSet(B.ops[IdAt(B, call.points[k][1], call.points[k][2])].loc, call.ops[k].loc)
                   /\ \A j \in 1..Len(call.points) : j # k => IdAt(B, call.points[j][1], call.points[j][2]) # IdAt(B, call.points[k][1], call.points[k][2])
              THEN "valid" ELSE "unspec"
    [] nm = "replace_with_circuit" ->
         IF ~Occupied(B, call.ci, call.q) THEN "invalid"
         ELSE IF SubOK(B, call.sub, B.ops[IdAt(B, call.ci, call.q)].loc) THEN "valid" ELSE "invalid"
    [] nm = "pop_cycle" -> IF InRange(n, call.ci) THEN "valid" ELSE "invalid"
    [] nm = "append_qudit" -> IF call.k >= 2 THEN "valid" ELSE "invalid"
    [] nm = "extend_qudits" -> IF \A i \in 1..Len(call.radixes) : call.radixes[i] >= 2 THEN "valid" ELSE "unspec"
    [] nm = "insert_qudit" -> IF call.k >= 2 THEN "valid" ELSE "invalid"
    [] nm = "pop_qudit" -> IF InRange(B.nq, call.q) /\ B.nq >= 2 THEN "valid" ELSE "invalid"
    [] nm = "renumber" -> IF Len(call.perm) = B.nq /\ Range(call.perm) = 0..B.nq - 1 THEN "valid" ELSE "invalid"
    [] nm \in {"fold", "straighten"} ->
         IF Len(call.region) = 0 THEN (IF nm = "fold" THEN "invalid" ELSE "valid")
         ELSE IF ~RegWellFormed(call.region) \/ ~RegInBounds(B, call.region) THEN "invalid"
         ELSE LET S == RegOps(B, call.region) IN
              IF S = {} \/ ~RegFully(B, call.region) THEN "unspec"
              ELSE IF Convex(B, S) THEN "valid" ELSE "invalid"
    [] nm = "unfold" -> IF Occupied(B, call.ci, call.q) /\ B.ops[IdAt(B, call.ci, call.q)].kind = "block" THEN "valid" ELSE "invalid"
    [] nm = "batch_unfold" -> IF \A k \in 1..Len(call.points) : Occupied(B, call.points[k][1], call.points[k][2])
                                    /\ B.ops[IdAt(B, call.points[k][1], call.points[k][2])].kind = "block" THEN "valid" ELSE "invalid"
    [] nm \in {"unfold_all", "compress", "copy", "clear", "inverse"} -> "valid"
    [] nm \in {"become"} -> "valid"
    [] nm \in {"add", "iadd"} -> IF call.sub.nq = B.nq /\ call.sub.radix = B.radix THEN "valid" ELSE "unspec"
    [] nm \in {"mul", "imul"} -> IF call.k >= 1 THEN "valid" ELSE "unspec"
    [] nm = "set_params" -> IF call.k = NumParams(B) THEN "valid" ELSE "invalid"
    [] OTHER -> "unspec"

\* the documented per-qudit outcome of a valid call (single-valued calls)
ExpPQ(call, B) ==
  LET n == NC(B) nm == call.name P == PerQudit(B) IN
  CASE nm \in {"append", "append_gate"} -> AppendPQ(P, call.op)
    [] nm = "extend" -> AppendAllPQ(P, call.ops, 1)
    [] nm = "append_circuit" -> AppendPQ(P, BlockOf(call.sub, call.loc))
    [] nm \in {"insert", "insert_gate"} -> InsertPQ(B, call.ci, call.op)
    [] nm = "insert_circuit" -> InsertPQ(B, call.ci, BlockOf(call.sub, call.loc))
    [] nm = "pop" -> PQMap(B, {IdAt(B, call.ci, call.q)}, NoRepl)
    [] nm = "batch_pop" -> PQMap(B, PointIds(B, call.points), NoRepl)
    [] nm = "remove" -> PQMap(B, {Matches(B, call)[1]}, NoRepl)
    [] nm = "remove_all" -> PQMap(B, Range(Matches(B, call)), NoRepl)
    [] nm \in {"replace", "replace_gate"} -> LET id == IdAt(B, call.ci, call.q) IN PQMap(B, {}, [x \in {id} |-> call.op])
    [] nm = "batch_replace" ->
         LET ids == [k \in 1..Len(call.points) |-> IdAt(B, call.points[k][1], call.points[k][2])] IN
         PQMap(B, {}, [x \in Range(ids) |-> call.ops[Pos(ids, x)]])
    [] nm = "replace_with_circuit" ->
         LET id == IdAt(B, call.ci, call.q) IN PQMap(B, {}, [x \in {id} |-> BlockOf(call.sub, B.ops[id].loc)])
    [] nm = "pop_cycle" -> PQMap(B, RowIds(B, Norm(n, call.ci) + 1), NoRepl)
    [] nm = "append_qudit" -> Append(P, <<>>)
    [] nm = "extend_qudits" -> P \o [i \in 1..Len(call.radixes) |-> <<>>]
    [] nm = "insert_qudit" -> InsAt(P, NormInsQ(B.nq, call.q) + 1, <<>>)
    [] nm = "pop_qudit" -> LET j == Norm(B.nq, call.q) IN
                           DelAt(PQMap(B, {id \in LiveIds(B) : j \in Range(B.ops[id].loc)}, NoRepl), j + 1)
    [] nm = "renumber" -> [i \in 1..B.nq |-> P[Pos(call.perm, i - 1) ]]
    [] nm \in {"fold", "unfold", "batch_unfold", "unfold_all", "straighten", "compress", "copy", "set_params"} -> P
    [] nm = "become" -> PerQudit(call.sub)
    [] nm = "clear" -> [i \in 1..B.nq |-> <<>>]
    [] nm \in {"add", "iadd"} -> LET Q == PerQudit(call.sub) IN [i \in 1..B.nq |-> P[i] \o Q[i]]
    [] nm \in {"mul", "imul"} -> [i \in 1..B.nq |-> RepeatSeq(P[i], call.k)]
    [] nm = "inverse" -> [i \in 1..B.nq |-> InvSeq(P[i])]

\* L1 acceptance of an observed outcome A (a snapshot) of a call that returned normally
Acceptable(call, B, A) ==
  LET nm == call.name  PA == PerQudit(A) IN
  IF nm = "pop_last" THEN
       \* "defaults to last operation": some operation with nothing after it was removed
       \E id \in LiveIds(B) : NextSet(B, RowOf(B, id), id) = {} /\ PA = PQMap(B, {id}, NoRepl)
  ELSE IF nm \in {"replace", "replace_gate"} /\ ~SameSet(B.ops[IdAt(B, call.ci, call.q)].loc, call.op.loc) THEN
       \* different qudit set: old operation gone, the others keep their order, the new operation takes the old
       \* one's slot on shared qudits and, elsewhere, sits after earlier cycles and before later cycles
       LET id == IdAt(B, call.ci, call.q)  c == Norm(NC(B), call.ci) + 1  o == call.op  old == B.ops[id] IN
       /\ Len(PA) = B.nq
       /\ \A i \in 1..B.nq :
            IF (i - 1) \in Range(o.loc) /\ (i - 1) \in Range(old.loc)
              THEN PA[i] = PerQ(B, i - 1, 1, c - 1) \o Flat(o, Pos(o.loc, i - 1)) \o PerQ(B, i - 1, c + 1, NC(B))
            ELSE IF (i - 1) \in Range(o.loc)
              THEN \/ PA[i] = PerQ(B, i - 1, 1, c - 1) \o Flat(o, Pos(o.loc, i - 1)) \o PerQ(B, i - 1, c, NC(B))
                   \/ PA[i] = PerQ(B, i - 1, 1, c) \o Flat(o, Pos(o.loc, i - 1)) \o PerQ(B, i - 1, c + 1, NC(B))
            ELSE IF (i - 1) \in Range(old.loc)
              THEN PA[i] = PerQ(B, i - 1, 1, c - 1) \o PerQ(B, i - 1, c + 1, NC(B))
            ELSE PA[i] = PerQ(B, i - 1, 1, NC(B))
  ELSE PA = ExpPQ(call, B)

\* the reference layout after a valid call (what CircuitRef's actions do, and what DRIFT compares with)
Ref(call, B) ==
  LET n == NC(B) nm == call.name IN
  CASE nm \in {"append", "append_gate"} -> RefAppend(B, call.op)
    [] nm = "extend" -> AppendAll(B, call.ops, 1)
    [] nm = "append_circuit" -> RefAppendCircuit(B, call.sub, call.loc, call.asblock)
    [] nm \in {"insert", "insert_gate"} -> RefInsert(B, call.ci, call.op)
    [] nm = "insert_circuit" -> RefInsertCircuit(B, call.ci, call.sub, call.loc, call.asblock)
    [] nm = "pop" -> RefPopId(B, IdAt(B, call.ci, call.q))
    [] nm = "pop_last" -> RefPopLast(B)
    [] nm = "batch_pop" -> RefDrop(B, PointIds(B, call.points))
    [] nm = "remove" -> RefPopId(B, Matches(B, call)[1])
    [] nm = "remove_all" -> RefDrop(B, Range(Matches(B, call)))
    [] nm \in {"replace", "replace_gate"} -> RefReplace(B, Norm(n, call.ci) + 1, Norm(B.nq, call.q), call.op)
    [] nm = "batch_replace" ->
         LET ids == [k \in 1..Len(call.points) |-> IdAt(B, call.points[k][1], call.points[k][2])] IN
         [B EXCEPT !.ops = [j \in 1..Len(B.ops) |-> IF j \in Range(ids) THEN call.ops[Pos(ids, j)] ELSE B.ops[j]]]
    [] nm = "replace_with_circuit" -> RefReplaceWithCircuit(B, Norm(n, call.ci) + 1, Norm(B.nq, call.q), call.sub, call.asblock)
    [] nm = "pop_cycle" -> RefPopCycle(B, call.ci)
    [] nm = "append_qudit" -> RefInsertQudit(B, B.nq, call.k)
    [] nm = "extend_qudits" ->
         LET RECURSIVE Go(_, _)
             Go(X, k) == IF k > Len(call.radixes) THEN X ELSE Go(RefInsertQudit(X, X.nq, call.radixes[k]), k + 1)
         IN Go(B, 1)
    [] nm = "insert_qudit" -> RefInsertQudit(B, call.q, call.k)
    [] nm = "pop_qudit" -> RefPopQudit(B, call.q)
    [] nm = "renumber" -> RefRenumber(B, call.perm)
    [] nm = "fold" -> RefFoldSet(B, RegOps(B, call.region))
    [] nm = "unfold" -> RefUnfold(B, Norm(n, call.ci) + 1, Norm(B.nq, call.q))
    [] nm = "batch_unfold" ->      \* all the named blocks, whatever happens to cycle indices in between
         LET RECURSIVE Go(_, _)
             Go(X, S) == IF S = {} THEN X
                         ELSE LET id == CHOOSE x \in S : \A y \in S : RowOf(X, y) <= RowOf(X, x)
                              IN Go(RefUnfold(X, RowOf(X, id), X.ops[id].loc[1]), S \ {id})
         IN Go(B, {IdAt(B, call.points[k][1], call.points[k][2]) : k \in 1..Len(call.points)})
    [] nm = "unfold_all" -> RefUnfoldAll(B)
    [] nm \in {"straighten", "copy", "set_params"} -> B
    [] nm = "compress" -> RefCompress(B)
    [] nm = "become" -> call.sub
    [] nm = "clear" -> EmptyX(B.nq, B.radix)
    [] nm = "add" -> RefAdd(B, call.sub)
    [] nm = "iadd" -> RefIAdd(B, call.sub)
    [] nm = "mul" -> RefMul(B, call.k)
    [] nm = "imul" -> RefIMul(B, call.k)
    [] nm = "inverse" -> RefInverse(B)
=============================================================================
