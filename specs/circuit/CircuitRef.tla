------------------------------ MODULE CircuitRef ------------------------------
(* The reference "list of cycles" model of bqskit.ir.Circuit as a state machine (C04, C05).

   State: st = the circuit snapshot (grid of cycles, operation table, radixes; see CircuitOps),
          lastAct = the last call with its arguments (history variable, hidden from the fingerprint
          by VIEW so that the explored graph is the graph of circuits; the action property and the EDGE
          emission are evaluated on every transition).
   One action per public editing call; the effect is Ref(call, st) from CircuitOps, i.e. the grid
   manipulation written from the docstring.  Only calls with Validity = "valid" are taken.

   Checked by TLC on small constants (cfg files next to this module):
     NoEmptyCycle, OpsAtLoc        C05 structure on every reachable state
     ActionProperty                C04: PerQudit changes exactly as the documented effect of the call says
                                   (the grid-level reference and the per-qudit statement are written
                                   independently; TLC shows they agree on every transition)
     StructureOnly, Sanity         structure-only calls leave program order alone; derived views agree
   Every transition is printed as <<"EDGE", pre, call, post>> (JSON) and replayed by the harness into a
   real Circuit (harness/circuit_rec.py). *)
EXTENDS CircuitOps, Json

CONSTANTS InitQ, MinQ, MaxQ,     \* number of qudits at start, and the range qudit calls may move it in
          MaxLive,               \* bound on leaf operations alive (blocks count their contents)
          MaxArity,              \* widest new operation
          MaxSub,                \* most operations in a sub-circuit argument
          MaxNest,               \* deepest block nesting
          Radixes,               \* radixes new qudits may get
          AllVariants,           \* TRUE: also the *_gate / negative-index / by-gate spellings of the calls
          MaxDepth,              \* TLCGet("level") bound
          Emit,                  \* TRUE: print EDGE lines
          Acts                   \* names of the calls enabled in this configuration

VARIABLES st, lastAct
vars == <<st, lastAct>>
View == st

C(name) == [name |-> name, ci |-> 0, q |-> 0, op |-> NoOp, ops |-> <<>>, sub |-> EmptyX(0, <<>>), loc |-> <<>>,
            asblock |-> FALSE, points |-> <<>>, perm |-> <<>>, radixes |-> <<>>, region |-> <<>>, k |-> 0, via |-> "op"]

\* canonical numbering of the operation table (forward scan order): states do not depend on allocation history.
\* Every function constructor is forced with TLCEval: lazily evaluated functions must not be stored in states
\* (lastAct is outside the VIEW, so nothing else would ever normalise it).
RECURSIVE NormOp(_)
NormOp(o) == [tag |-> o.tag, kind |-> o.kind, loc |-> TLCEval(o.loc), np |-> o.np, rad |-> TLCEval(o.rad),
              body |-> TLCEval([k \in 1..Len(o.body) |-> NormOp(o.body[k])])]
Canon(X) == LET s == FwdIds(X) IN
            [nq |-> X.nq, radix |-> TLCEval(X.radix),
             ops |-> TLCEval([k \in 1..Len(s) |-> NormOp(X.ops[s[k]])]),
             grid |-> TLCEval([c \in 1..NC(X) |-> TLCEval([i \in 1..X.nq |-> IF X.grid[c][i] = 0 THEN 0 ELSE Pos(s, X.grid[c][i])])])]
NormCall(call) == [call EXCEPT !.op = NormOp(@), !.ops = TLCEval([k \in 1..Len(@) |-> NormOp(@[k])]),
                               !.sub = IF @.nq = 0 THEN @ ELSE Canon(@), !.loc = TLCEval(@),
                               !.points = TLCEval([k \in 1..Len(@) |-> TLCEval(@[k])]), !.perm = TLCEval(@),
                               !.radixes = TLCEval(@), !.region = TLCEval([k \in 1..Len(@) |-> TLCEval(@[k])])]

RECURSIVE LeafTags(_)
LeafTags(o) == IF o.kind \in {"block", "iblock"} THEN UNION {LeafTags(o.body[k]) : k \in 1..Len(o.body)}
               ELSE IF o.kind = "gate" THEN {IF o.tag < 0 THEN -o.tag ELSE o.tag} ELSE {}
RECURSIVE NumLeaves(_)
NumLeaves(o) == IF o.kind \in {"block", "iblock"} THEN SumR([k \in 1..Len(o.body) |-> NumLeaves(o.body[k])], 1, Len(o.body)) ELSE 1
RECURSIVE Nest(_)
Nest(o) == IF o.kind \in {"block", "iblock"} THEN 1 + MaxOf({Nest(o.body[k]) : k \in 1..Len(o.body)} \cup {0}) ELSE 0
Used(X) == UNION {LeafTags(X.ops[id]) : id \in LiveIds(X)}
Leaves(X) == LET os == FwdOps(X) IN SumR([k \in 1..Len(os) |-> NumLeaves(os[k])], 1, Len(os))
Fresh1(X) == MinOf((1..MaxLive + 2) \ Used(X))
Fresh2(X) == MinOf((1..MaxLive + 2) \ (Used(X) \cup {Fresh1(X)}))
Room(X, k) == Leaves(X) + k <= MaxLive

Locs(n, w) == {s \in UNION {[1..k -> 0..n - 1] : k \in 1..(IF w < n THEN w ELSE n)} : Injective(s)}
AscLocs(n, w) == {s \in Locs(n, w) : \A i \in 1..Len(s) - 1 : s[i] < s[i + 1]}
Perms(n) == {s \in [1..n -> 0..n - 1] : Injective(s)}
RadOf(radix, loc) == [i \in 1..Len(loc) |-> radix[loc[i] + 1]]
Gate(radix, loc, t) == [tag |-> t, kind |-> "gate", loc |-> loc, np |-> IF Len(loc) = 1 THEN 1 ELSE 0,
                        rad |-> RadOf(radix, loc), body |-> <<>>]
Barrier(radix, loc) == [tag |-> BARBASE + Len(loc), kind |-> "barrier", loc |-> loc, np |-> 0,
                        rad |-> RadOf(radix, loc), body |-> <<>>]
NewOps(X, t) == {Gate(X.radix, l, t) : l \in Locs(X.nq, MaxArity)} \cup {Barrier(X.radix, l) : l \in AscLocs(X.nq, MaxArity)}
NewGates(X, t) == {Gate(X.radix, l, t) : l \in Locs(X.nq, MaxArity)}

\* sub-circuit arguments over the radixes rad (a sequence): up to MaxSub fresh gates of width <= 2
SubBodies(rad, t1, t2) ==
  LET k == Len(rad)  G(l, t) == Gate(rad, l, t) IN
  {<<>>} \cup (IF MaxSub >= 1 THEN {<<G(<<0>>, t1)>>} \cup (IF k >= 2 THEN {<<G(<<1, 0>>, t1)>>} ELSE {}) ELSE {})
         \cup (IF MaxSub >= 2 THEN {<<G(<<0>>, t1), G(<<0>>, t2)>>}
                                   \cup (IF k >= 2 THEN {<<G(<<1>>, t1), G(<<1, 0>>, t2)>>, <<G(<<0, 1>>, t1), G(<<0>>, t2)>>} ELSE {})
                                   \cup (IF k >= 3 THEN {<<G(<<2>>, t1), G(<<0, 2>>, t2)>>} ELSE {})
                ELSE {})
SubX(rad, body) == Canon(AppendAll(EmptyX(Len(rad), rad), body, 1))
Subs(X, rad) == {SubX(rad, b) : b \in {bb \in SubBodies(rad, Fresh1(X), Fresh2(X)) : Room(X, Len(bb))}}

Names(base, alt) == IF AllVariants THEN {base, alt} ELSE {base}
Vias == IF AllVariants THEN {"op", "gate"} ELSE {"op"}
CyclesArg(X) == -(NC(X) + 2) .. NC(X) + 1
PyPoints(X) ==          \* python points of occupied cells (negative spellings with AllVariants)
  LET P0 == {<<c - 1, q>> : <<c, q>> \in {p \in (1..NC(X)) \X (0..X.nq - 1) : At(X, p[1], p[2]) # 0}} IN
  IF AllVariants THEN P0 \cup {<<p[1] - NC(X), p[2] - X.nq>> : p \in P0} ELSE P0
OpPointOf(X, id) == <<RowOf(X, id) - 1, X.ops[id].loc[1]>>
BlockIds(X) == {id \in LiveIds(X) : X.ops[id].kind = "block"}

Do(call) == /\ call.name \in Acts
            /\ Validity(call, st) = "valid"
            /\ st' = Canon(Ref(call, st))
            /\ lastAct' = NormCall(call)

ActAppend == \E nm \in Names("append", "append_gate"), o \in NewOps(st, Fresh1(st)) :
             Room(st, 1) /\ Do([C(nm) EXCEPT !.op = o])
ActExtend == \E o1 \in NewGates(st, Fresh1(st)), o2 \in NewOps(st, Fresh2(st)) :
             Room(st, 2) /\ Do([C("extend") EXCEPT !.ops = <<o1, o2>>])
ActAppendCircuit == \E l \in Locs(st.nq, 2), b \in BOOLEAN : \E s \in Subs(st, RadOf(st.radix, l)) :
             Do([C("append_circuit") EXCEPT !.sub = s, !.loc = l, !.asblock = b])
ActInsert == \E nm \in Names("insert", "insert_gate"), ci \in CyclesArg(st), o \in NewOps(st, Fresh1(st)) :
             Room(st, 1) /\ Do([C(nm) EXCEPT !.ci = ci, !.op = o])
ActInsertCircuit == \E ci \in CyclesArg(st), l \in Locs(st.nq, 2), b \in BOOLEAN : \E s \in Subs(st, RadOf(st.radix, l)) :
             Do([C("insert_circuit") EXCEPT !.ci = ci, !.sub = s, !.loc = l, !.asblock = b])
ActPop == \E p \in PyPoints(st) : Do([C("pop") EXCEPT !.ci = p[1], !.q = p[2]])
ActPopLast == Room(st, 0) /\ Do(C("pop_last"))
ActBatchPop == \E S \in SUBSET LiveIds(st) : S # {} /\
             LET pts == [k \in 1..Cardinality(S) |-> OpPointOf(st, SetToSeq(S)[k])]
                 idle == {p \in (0..NC(st) - 1) \X (0..st.nq - 1) : At(st, p[1] + 1, p[2]) = 0} IN
             \/ Do([C("batch_pop") EXCEPT !.points = pts])
             \/ idle # {} /\ Do([C("batch_pop") EXCEPT !.points = pts \o <<CHOOSE p \in idle : TRUE>>])
ActRemove == \E id \in LiveIds(st), v \in Vias : Do([C("remove") EXCEPT !.op = st.ops[id], !.via = v])
ActRemoveAll == \E id \in LiveIds(st), v \in Vias : Do([C("remove_all") EXCEPT !.op = st.ops[id], !.via = v])
ActReplace == \E nm \in Names("replace", "replace_gate"), p \in PyPoints(st), o \in NewGates(st, Fresh1(st)) :
             Do([C(nm) EXCEPT !.ci = p[1], !.q = p[2], !.op = o])
ActBatchReplace == \E S \in SUBSET LiveIds(st) : S # {} /\ Cardinality(S) <= 2 /\
             LET ids == SetToSeq(S)
                 t(k) == IF k = 1 THEN Fresh1(st) ELSE Fresh2(st) IN
             Do([C("batch_replace") EXCEPT !.points = [k \in 1..Len(ids) |-> OpPointOf(st, ids[k])],
                                           !.ops = [k \in 1..Len(ids) |-> Gate(st.radix, Rev(st.ops[ids[k]].loc), t(k))]])
ActReplaceWithCircuit == \E p \in PyPoints(st), b \in BOOLEAN :
             \E s \in Subs(st, RadOf(st.radix, st.ops[IdAt(st, p[1], p[2])].loc)) :
             Do([C("replace_with_circuit") EXCEPT !.ci = p[1], !.q = p[2], !.sub = s, !.asblock = b])
ActPopCycle == \E ci \in -NC(st) .. NC(st) - 1 : (AllVariants \/ ci >= 0) /\ Do([C("pop_cycle") EXCEPT !.ci = ci])
ActAppendQudit == \E r \in Radixes : st.nq < MaxQ /\ Do([C("append_qudit") EXCEPT !.k = r])
ActExtendQudits == \E rs \in {<<>>} \cup {<<r>> : r \in Radixes} \cup {<<r1, r2>> : r1, r2 \in Radixes} :
             st.nq + Len(rs) <= MaxQ /\ Do([C("extend_qudits") EXCEPT !.radixes = rs])
ActInsertQudit == \E i \in -(st.nq + 1) .. st.nq + 1, r \in Radixes : st.nq < MaxQ /\ Do([C("insert_qudit") EXCEPT !.q = i, !.k = r])
ActPopQudit == \E i \in -st.nq .. st.nq - 1 : st.nq > MinQ /\ Do([C("pop_qudit") EXCEPT !.q = i])
ActRenumber == \E p \in Perms(st.nq) : Do([C("renumber") EXCEPT !.perm = p])
FoldRegions(X) == {Bounding(X, S) : S \in (SUBSET LiveIds(X)) \ {{}}}
ActFold == \E R \in FoldRegions(st) :
             (\A id \in RegOps(st, R) : Nest(st.ops[id]) < MaxNest) /\ Do([C("fold") EXCEPT !.region = R])
ActStraighten == \E R \in FoldRegions(st) \cup {<<>>} : Do([C("straighten") EXCEPT !.region = R])
ActUnfold == \E id \in BlockIds(st) : \E q \in Range(st.ops[id].loc) : Do([C("unfold") EXCEPT !.ci = RowOf(st, id) - 1, !.q = q])
ActBatchUnfold == \E S \in SUBSET BlockIds(st) :
             Do([C("batch_unfold") EXCEPT !.points = [k \in 1..Cardinality(S) |-> OpPointOf(st, SetToSeq(S)[k])]])
ActUnfoldAll == Room(st, 0) /\ Do(C("unfold_all"))
ActCompress == Room(st, 0) /\ Do(C("compress"))
ActCopy == Room(st, 0) /\ Do(C("copy"))
ActClear == Room(st, 0) /\ Do(C("clear"))
ActInverse == Room(st, 0) /\ Do(C("inverse"))
ActSetParams == Room(st, 0) /\ Do([C("set_params") EXCEPT !.k = NumParams(st)])
FullSubs(X) == LET rad == X.radix  t1 == Fresh1(X)  t2 == Fresh2(X) IN
               {SubX(rad, b) : b \in {bb \in SubBodies(rad, t1, t2) : Room(X, Len(bb))}}
ActBecome == \E s \in {SubX(st.radix, b) : b \in SubBodies(st.radix, 1, 2)} : Do([C("become") EXCEPT !.sub = s])
ActAdd == \E nm \in {"add", "iadd"} : \E s \in FullSubs(st) : Do([C(nm) EXCEPT !.sub = s])
ActMul == \E nm \in {"mul", "imul"}, k \in 0..2 : Leaves(st) * k <= MaxLive /\ Do([C(nm) EXCEPT !.k = k])

Init == /\ st = EmptyX(InitQ, [i \in 1..InitQ |-> IF i = 2 /\ 3 \in Radixes THEN 3 ELSE 2])
        /\ lastAct = C("init")
Next == \/ ActAppend \/ ActExtend \/ ActAppendCircuit \/ ActInsert \/ ActInsertCircuit \/ ActPop \/ ActPopLast \/ ActBatchPop
        \/ ActRemove \/ ActRemoveAll \/ ActReplace \/ ActBatchReplace \/ ActReplaceWithCircuit \/ ActPopCycle
        \/ ActAppendQudit \/ ActExtendQudits \/ ActInsertQudit \/ ActPopQudit \/ ActRenumber
        \/ ActFold \/ ActStraighten \/ ActUnfold \/ ActBatchUnfold \/ ActUnfoldAll \/ ActCompress \/ ActCopy \/ ActClear \/ ActInverse
        \/ ActSetParams \/ ActBecome \/ ActAdd \/ ActMul
Spec == Init /\ [][Next]_vars
Bound == TLCGet("level") <= MaxDepth

\* ------------------------------------------------------------------ properties
NoEmptyCycle == ~HasEmptyCycle(st)
OpsAtLoc == OpsAtLocation(st)
RadixOK == /\ Len(st.radix) = st.nq
           /\ \A id \in LiveIds(st) : st.ops[id].rad = RadOf(st.radix, st.ops[id].loc)
\* C04 (action property, checked on every transition): the call had exactly its documented effect on every
\* qudit's program order; structure-only calls leave it alone.  Every transition is also emitted for replay.
StructureOnlyNames == {"fold", "unfold", "batch_unfold", "unfold_all", "straighten", "compress", "copy", "set_params"}
ActOK == /\ Acceptable(lastAct', st, st')
         /\ lastAct'.name \in StructureOnlyNames => PerQudit(st') = PerQudit(st)
         /\ IF Emit THEN PrintT(<<"EDGE", ToJson(st), ToJson(lastAct'), ToJson(st')>>) ELSE TRUE
ActionProperty == [][ActOK]_vars
\* derived views agree with each other on every reachable state
IterCompatible(X, s) ==      \* s: sequence of ids; every operation once, each qudit's operations by increasing cycle
  /\ Range(s) = LiveIds(X) /\ Len(s) = Cardinality(LiveIds(X))
  /\ \A i, j \in 1..Len(s) : i < j /\ Range(X.ops[s[i]].loc) \cap Range(X.ops[s[j]].loc) # {} => RowOf(X, s[i]) < RowOf(X, s[j])
Sanity == /\ IterCompatible(st, FwdIds(st))
          /\ Depth(st) <= NC(st)
          /\ NC(RefCompress(st)) = Depth(st)                               \* as-early-as-possible layering has depth many cycles
          /\ PerQudit(RefCompress(st)) = PerQudit(st)
          /\ PerQudit(RefInverse(RefInverse(st))) = PerQudit(st)
          /\ \A q \in 0..st.nq - 1 : (FirstOn(st, q) = <<>>) = (q \notin ActiveQudits(st))
          /\ Front(st) \subseteq {FirstOn(st, q) : q \in ActiveQudits(st)}
          /\ Rear(st) \subseteq {LastOn(st, q) : q \in ActiveQudits(st)}
          /\ NumOps(st) = Cardinality(LiveIds(st))
=============================================================================
