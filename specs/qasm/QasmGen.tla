------------------------------ MODULE QasmGen ------------------------------
(* C17: TLC enumerates every small OpenQASM 2 program of three families as the states of this
   specification, checks internal consistency properties of the denotation QasmSem on each, and prints
   each program (ToJson) so that the harness can run the real readers on exactly these programs
   and hand their output back to TLC (QasmCheck) for the verdict.

     family "expr":   qreg q[1]; rz(E) q[0];        for EVERY expression E of the grammar up to depth 2
                      over the atoms below (operators + - * / ^, unary minus, parentheses on either side)
     family "bind":   gate g0(theta, phi) a { rz(B) a; }   g0(A1, A2) q[0];   and a gate that calls g0,
                      for every body expression B over the formals and actuals A1, A2 from a small set
     family "struct": register layouts x gate-definition sets x every sequence of at most MaxStmts
                      statements from Menu (gates on single qubits and broadcast over registers, user gates,
                      nested user gates, barrier, measure, reset)

   Size = 0 is the quick configuration, 1 the thorough one. *)
EXTENDS QasmSem, Json

CONSTANTS Size, MaxStmts, Fams
VARIABLES fam, prog

\* ------------------------------------------------------------------ constructors
Num(m, e, sci) == [k |-> "num", m |-> m, e |-> e, sci |-> sci]
Pi == [k |-> "pi"]
Var(i) == [k |-> "var", i |-> i]
Par(x) == [k |-> "par", x |-> x]
Neg(x) == [k |-> "neg", x |-> x]
MkBin(k, x, y) == [k |-> k, x |-> x, y |-> y]
Fn(f, x) == [k |-> "fn", f |-> f, x |-> x]
QA(r, i) == [r |-> r, i |-> i]
App(g, p, q) == [k |-> "app", g |-> g, p |-> p, q |-> q, c |-> <<>>]
Barrier(q) == [k |-> "barrier", g |-> "", p |-> <<>>, q |-> q, c |-> <<>>]
Measure(a, c) == [k |-> "measure", g |-> "", p |-> <<>>, q |-> <<a>>, c |-> <<c>>]
Reset(a) == [k |-> "reset", g |-> "", p |-> <<>>, q |-> <<a>>, c |-> <<>>]
BodySt(g, p, q) == [g |-> g, p |-> p, q |-> q]
Reg(n, s) == [n |-> n, s |-> s]
Program(qregs, cregs, gates, stmts) == [qregs |-> qregs, cregs |-> cregs, gates |-> gates, stmts |-> stmts]

\* ------------------------------------------------------------------ family "expr"
Atoms == IF Size = 0 THEN {Num(2, 0, FALSE), Pi, Num(15, -1, TRUE)}
         ELSE {Num(2, 0, FALSE), Num(3, 0, FALSE), Pi, Num(15, -1, TRUE), Num(5, -1, FALSE), Num(7, 0, FALSE)}
BinOps == {"add", "sub", "mul", "div", "pow"}
D1 == {MkBin(k, x, y) : k \in BinOps, x \in Atoms, y \in Atoms}
D2 == {MkBin(k, x, Par(b)) : k \in BinOps, x \in Atoms, b \in D1}
      \cup {MkBin(k, Par(b), y) : k \in BinOps, y \in Atoms, b \in D1}
      \cup {MkBin(k, b, y) : k \in BinOps, y \in Atoms, b \in D1}
      \cup {MkBin(k, x, b) : k \in BinOps, x \in Atoms, b \in D1}
      \cup {Neg(Par(b)) : b \in D1} \cup {Neg(b) : b \in D1} \cup {Par(b) : b \in D1}
      \cup {MkBin(k, x, Neg(y)) : k \in BinOps, x \in Atoms, y \in Atoms}
      \cup {MkBin(k, Neg(x), y) : k \in BinOps, x \in Atoms, y \in Atoms}
Bounded(v) == Abs(v.a[1]) <= 150 * v.a[2] /\ Abs(v.a[1]) <= 20000 /\ v.a[2] <= 20000 /\ Abs(v.b[1]) <= 2000 /\ v.b[2] <= 2000 /\ Abs(v.b[1]) <= 40 * v.b[2]
ValidClosed(e) == WellFormedExpr(e, 0) /\ LET v == Eval(e, <<>>) IN v.st = "val" /\ Bounded(v)
\* (filtered per top-level operator inside the Expand action, i.e. by TLC's workers in parallel, not at start-up)
ExprCandidates == Atoms \cup {Neg(a) : a \in Atoms} \cup D1 \cup D2
ExprSetOf(kind) == {e \in ExprCandidates : e.k = kind /\ ValidClosed(e)}
Q1 == <<Reg("q", 1)>>
ExprProgram(e) == Program(Q1, <<>>, <<>>, <<App("rz", <<e>>, <<QA("q", 0)>>)>>)

\* ------------------------------------------------------------------ family "bind"
Formals == {Var(1), Var(2)}
BAtoms == Formals \cup {Num(2, 0, FALSE), Pi}
B1 == {MkBin(k, x, y) : k \in {"add", "sub", "mul", "div", "pow"}, x \in BAtoms, y \in BAtoms}
B2 == {MkBin(k, x, Par(b)) : k \in {"sub", "mul", "div"}, x \in Formals, b \in {c \in B1 : c.k \in {"add", "sub"}}}
      \cup {MkBin(k, Par(b), y) : k \in {"mul", "div"}, y \in {Num(2, 0, FALSE)}, b \in {c \in B1 : c.k \in {"add", "sub"}}}
      \cup {Neg(Par(b)) : b \in {c \in B1 : c.k \in {"add", "sub"}}}
      \cup {Neg(x) : x \in Formals}
Actuals == IF Size = 0
           THEN {<<Neg(Num(3, 0, FALSE)), MkBin("div", Pi, Num(4, 0, FALSE))>>}
           ELSE {<<Neg(Num(3, 0, FALSE)), MkBin("div", Pi, Num(4, 0, FALSE))>>, <<Num(1, 0, FALSE), MkBin("div", Pi, Num(4, 0, FALSE))>>, <<Neg(Par(MkBin("add", Num(1, 0, FALSE), Num(2, 0, FALSE)))), Num(25, -2, FALSE)>>,
                 <<MkBin("sub", Pi, Num(1, 0, FALSE)), Num(3, 0, FALSE)>>, <<Num(5, -1, FALSE), Neg(Pi)>>}
G0Of(b) == [name |-> "g0", np |-> 2, nq |-> 1, body |-> <<BodySt("rz", <<b>>, <<1>>)>>]
\* a gate whose body calls g0 with expressions over its own formal, on its second qubit
G1 == [name |-> "g1", np |-> 1, nq |-> 2,
       body |-> <<BodySt("g0", <<MkBin("mul", Var(1), Num(2, 0, FALSE)), MkBin("sub", Var(1), Pi)>>, <<2>>), BodySt("cx", <<>>, <<2, 1>>)>>]
Q2 == <<Reg("q", 2)>>
BindDirect(b, a) == Program(Q1, <<>>, <<G0Of(b)>>, <<App("g0", a, <<QA("q", 0)>>)>>)
BindNested(b, a) == Program(Q2, <<>>, <<G0Of(b), G1>>, <<App("g1", <<a[1]>>, <<QA("q", 1), QA("q", 0)>>)>>)
BodyOK(b) == WellFormedExpr(b, 2)
SmallValues(Fl) == \A i \in 1..Len(Fl) : \A j \in 1..Len(Fl[i].p) : Abs(Fl[i].p[j].v) <= 400000
BindBodies == Formals \cup B1 \cup B2
BindSetOf(kind, n) == {p \in (IF n = 1 THEN {BindDirect(b, a) : b \in {x \in BindBodies : x.k = kind}, a \in Actuals}
                                       ELSE {BindNested(b, a) : b \in {x \in BindBodies : x.k = kind}, a \in Actuals}) :
                         GeneratorError(p) = "" /\ SmallValues(Flat(p))}

\* ------------------------------------------------------------------ family "struct"
Layouts == IF Size = 0 THEN {<<Reg("q", 2)>>, <<Reg("q", 1), Reg("r", 2)>>, <<Reg("q", 2), Reg("r", 2)>>}
           ELSE {<<Reg("q", 1)>>, <<Reg("q", 2)>>, <<Reg("q", 1), Reg("r", 2)>>, <<Reg("q", 2), Reg("r", 2)>>, <<Reg("q", 2), Reg("r", 1), Reg("w", 2)>>}
CRegs == <<Reg("c", 2), Reg("d", 1)>>
SG0 == [name |-> "g0", np |-> 1, nq |-> 2,
        body |-> <<BodySt("rz", <<MkBin("div", Var(1), Num(2, 0, FALSE))>>, <<2>>), BodySt("cx", <<>>, <<2, 1>>)>>]
SG1 == [name |-> "g1", np |-> 2, nq |-> 2,
        body |-> <<BodySt("g0", <<MkBin("mul", Par(MkBin("add", Var(1), Var(2))), Num(2, 0, FALSE))>>, <<2, 1>>),
                   BodySt("u3", <<Var(1), Var(2), Neg(Var(1))>>, <<1>>)>>]
GateSets == {<<>>, <<SG0, SG1>>}
StructInit == IF Size = 0 THEN {Program(<<Reg("q", 2)>>, CRegs, <<>>, <<>>), Program(<<Reg("q", 1), Reg("r", 2)>>, CRegs, <<SG0, SG1>>, <<>>),
                                Program(<<Reg("q", 2), Reg("r", 2)>>, CRegs, <<SG0, SG1>>, <<>>)}
              ELSE {Program(l, CRegs, g, <<>>) : l \in Layouts, g \in GateSets}
SmallExprs == IF Size = 0 THEN {MkBin("div", Pi, Num(2, 0, FALSE)), MkBin("mul", Num(2, 0, FALSE), Par(MkBin("add", Num(1, 0, FALSE), Num(2, 0, FALSE))))}
              ELSE {MkBin("div", Pi, Num(2, 0, FALSE)), MkBin("mul", Num(2, 0, FALSE), Par(MkBin("add", Num(1, 0, FALSE), Num(2, 0, FALSE)))),
                    MkBin("div", Neg(Pi), Num(4, 0, FALSE)), Num(3, -1, TRUE)}
Bits(P) == {QA(P.qregs[i].n, j) : <<i, j>> \in {x \in (1..Len(P.qregs)) \X (0..2) : x[2] < P.qregs[x[1]].s}}
Wholes(P) == {QA(P.qregs[i].n, -1) : i \in 1..Len(P.qregs)}
Args(P) == Bits(P) \cup Wholes(P)
\* pairs of arguments that denote distinct qubits in every repetition, with equal sizes when both are registers
PairOK(P, a, b) == /\ a # b
                   /\ (Whole(a) /\ Whole(b)) => (a.r # b.r /\ RegSize(P.qregs, a.r) = RegSize(P.qregs, b.r))
                   /\ (Whole(a) /\ ~Whole(b)) => a.r # b.r
                   /\ (Whole(b) /\ ~Whole(a)) => a.r # b.r
Pairs(P) == {<<a, b>> \in Args(P) \X Args(P) : PairOK(P, a, b)}
BitPairs(P) == {<<a, b>> \in Bits(P) \X Bits(P) : a # b}
\* the quick configuration keeps the pairs whose second element lies in the last register
LastReg(P) == P.qregs[Len(P.qregs)].n
PairsM(P) == IF Size = 0 THEN {x \in Pairs(P) : x[2].r = LastReg(P)} ELSE Pairs(P)
BitPairsM(P) == IF Size = 0 THEN {x \in BitPairs(P) : x[2].r = LastReg(P)} ELSE BitPairs(P)
HasG(P, g) == \E i \in 1..Len(P.gates) : P.gates[i].name = g
U3Params == <<MkBin("div", Pi, Num(2, 0, FALSE)), Num(1, 0, FALSE), Neg(Num(2, 0, FALSE))>>
CBits == IF Size = 0 THEN {QA("c", 1), QA("d", 0)} ELSE {QA("c", 0), QA("c", 1), QA("d", 0)}
BarrierArgs(P) == {<<a>> : a \in Wholes(P)}
                  \cup {<<a, b>> : <<a, b>> \in {x \in Args(P) \X Args(P) : IF Size = 0 THEN Offset(P.qregs, x[1].r) < Offset(P.qregs, x[2].r) \/ (x[1].r # x[2].r /\ Whole(x[1]) /\ Whole(x[2]))
                                                                                ELSE x[1].r # x[2].r}}
                  \cup (IF Len(P.qregs) >= 3 THEN {<<QA("q", -1), QA("r", -1), QA("w", 0)>>, <<QA("q", 0), QA("r", -1), QA("w", -1)>>} ELSE {})
Menu(P) ==
  {App("h", <<>>, <<a>>) : a \in Args(P)}
  \cup {App("cx", <<>>, <<x[1], x[2]>>) : x \in PairsM(P)}
  \cup {App("rz", <<e>>, <<a>>) : e \in SmallExprs, a \in Bits(P)}
  \cup {App("u3", U3Params, <<a>>) : a \in (IF Size = 0 THEN {x \in Args(P) : x.r = LastReg(P)} ELSE Args(P))}
  \cup (IF HasG(P, "g0") THEN {App("g0", <<e>>, <<x[1], x[2]>>) : e \in (IF Size = 0 THEN {MkBin("mul", Num(2, 0, FALSE), Par(MkBin("add", Num(1, 0, FALSE), Num(2, 0, FALSE))))} ELSE SmallExprs), x \in PairsM(P)} ELSE {})
  \cup (IF HasG(P, "g1") THEN {App("g1", <<Num(1, 0, FALSE), MkBin("div", Pi, Num(4, 0, FALSE))>>, <<x[1], x[2]>>) : x \in BitPairsM(P)} ELSE {})
  \cup {Barrier(q) : q \in BarrierArgs(P)}
  \cup {Measure(a, c) : a \in Bits(P), c \in CBits}
  \cup {Measure(a, QA("c", -1)) : a \in {w \in Wholes(P) : RegSize(P.qregs, w.r) = 2}}
  \cup {Reset(a) : a \in Args(P)}

\* ------------------------------------------------------------------ the state machine: one state = one program
\* The expr and bind families are reached from a handful of seed states (one per top-level operator), so that TLC's
\* workers share the work of checking the invariants on them; a seed state is not a program.
Kinds == {"num", "pi", "var", "neg", "par", "add", "sub", "mul", "div", "pow"}
Seeds == {[f |-> "expr", b |-> k, n |-> 0] : k \in Kinds} \cup {[f |-> "bind", b |-> k, n |-> n] : k \in Kinds, n \in {1, 2}}
Init == \/ fam = "seed" /\ prog \in {s \in Seeds : s.f \in Fams}
        \/ "struct" \in Fams /\ fam = "struct" /\ prog \in StructInit
Expand == /\ fam = "seed"
          /\ \/ prog.f = "expr" /\ fam' = "expr" /\ prog' \in {ExprProgram(e) : e \in ExprSetOf(prog.b)}
             \/ prog.f = "bind" /\ fam' = "bind" /\ prog' \in BindSetOf(prog.b, prog.n)
\* layouts with four or more qubits get one statement (their menus are large), the others MaxStmts
Budget(P) == IF NQ(P) >= 4 THEN 1 ELSE MaxStmts
AddStmt == /\ fam = "struct" /\ Len(prog.stmts) < Budget(prog)
           /\ \E s \in Menu(prog) : prog' = [prog EXCEPT !.stmts = Append(@, s)]
           /\ UNCHANGED fam
Next == AddStmt \/ Expand
Spec == Init /\ [][Next]_<<fam, prog>>

\* ------------------------------------------------------------------ internal consistency of QasmSem on every program
IsProgram == fam # "seed"
\* The checks below take the flat denotation Fl = Flat(prog) as an argument and are conjoined in ONE invariant, so that
\* Flat is applied at a single place (TLC's -coverage instruments every application site of an operator separately and
\* the evaluator under Flat is deep: six separate invariants cost minutes of start-up).  Named() tells which one failed.
Named(n, b) == IF b THEN TRUE ELSE PrintT(<<"CONSISTENCY-CHECK-FAILS", n>>) /\ FALSE

\* (1) every generated tree is in the language and inside the exact value domain
Generated(Fl) == WellFormed(prog) /\ FlatError(Fl) = ""
\* (2) flat qubit indices are in range and distinct inside an operation
InRange(Fl) == \A i \in 1..Len(Fl) : Distinct(Fl[i].q) /\ \A j \in 1..Len(Fl[i].q) : Fl[i].q[j] \in 0..NQ(prog) - 1
\* (3) expanding a user gate by binding VALUES (QasmSem) equals inlining its body by hand with the actual
\*     EXPRESSIONS substituted (in parentheses) for the formals -- the two readings of a gate call in the paper
RECURSIVE Subst(_, _)
Subst(e, act) == CASE e.k = "var" -> Par(act[e.i])
                   [] e.k \in {"par", "neg"} -> [e EXCEPT !.x = Subst(e.x, act)]
                   [] e.k = "fn" -> [e EXCEPT !.x = Subst(e.x, act)]
                   [] e.k \in BinOps -> [e EXCEPT !.x = Subst(e.x, act), !.y = Subst(e.y, act)]
                   [] OTHER -> e
InlineStmt(P, st) ==
  IF st.k = "app" /\ IsCustom(P, st.g) /\ ~\E j \in 1..Len(st.q) : Whole(st.q[j])
  THEN LET d == GateDef(P, st.g) IN
       [i \in 1..Len(d.body) |-> App(d.body[i].g, [j \in 1..Len(d.body[i].p) |-> Subst(d.body[i].p[j], st.p)],
                                     [j \in 1..Len(d.body[i].q) |-> st.q[d.body[i].q[j]]])]
  ELSE <<st>>
RECURSIVE InlineFrom(_, _)
InlineFrom(P, i) == IF i > Len(P.stmts) THEN <<>> ELSE InlineStmt(P, P.stmts[i]) \o InlineFrom(P, i + 1)
Inlined(P) == [P EXCEPT !.stmts = InlineFrom(P, 1)]
SameFlat(A, B) == /\ Len(A) = Len(B)
                  /\ \A i \in 1..Len(A) : /\ A[i].g = B[i].g /\ A[i].q = B[i].q /\ A[i].cr = B[i].cr /\ A[i].ci = B[i].ci
                                          /\ Len(A[i].p) = Len(B[i].p)
                                          /\ \A j \in 1..Len(A[i].p) : A[i].p[j].v = B[i].p[j].v /\ A[i].p[j].known = B[i].p[j].known
\* (4) laws of the exact arithmetic on every enumerated expression
ExprLaws == fam = "expr" =>
  LET e == prog.stmts[1].p[1]
      tests == <<e, Par(e), Neg(Par(e)), MkBin("sub", e, Par(e)), MkBin("add", Par(e), Neg(Par(e))), MkBin("mul", Par(e), Num(1, 0, FALSE))>>
      w == TLCEval([i \in 1..6 |-> Eval(tests[i], <<>>)])
      sc == TLCEval([i \in 1..4 |-> Scaled(w[i])])
      v == w[1] IN
  /\ sc[2] = sc[1]
  /\ sc[3] = -sc[1]
  /\ sc[4] = 0
  /\ w[5].a = RZero
  /\ w[6].b = v.b
  /\ v.a[2] > 0 /\ v.b[2] > 0 /\ Gcd(Abs(v.a[1]), v.a[2]) = 1 /\ Gcd(Abs(v.b[1]), v.b[2]) = 1
\* (5) the comparison accepts the denotation itself and rejects it with the last operation dropped,
\*     the first one renamed, or one more qubit
AsObserved(ops) == [i \in 1..Len(ops) |->
   [g |-> ops[i].g, q |-> ops[i].q, p |-> [j \in 1..Len(ops[i].p) |-> ops[i].p[j].v],
    m |-> IF ops[i].g = "measure" THEN <<[k |-> ops[i].q[1], r |-> ops[i].cr, i |-> ops[i].ci]>> ELSE <<>>]]
DropLast(ops) == SubSeq(ops, 1, Len(ops) - 1)
Renamed(ops) == [i \in 1..Len(ops) |-> IF i = 1 THEN [ops[i] EXCEPT !.g = "zzz"] ELSE ops[i]]
Obs(ops) == [status |-> "ok", err |-> "", nq |-> NQ(prog), ops |-> ops]
ComparisonSound(Fl) ==
  LET good == AsObserved(Fl)
      tests == <<Obs(good), Obs(DropLast(good)), Obs(Renamed(good)), [Obs(good) EXCEPT !.nq = @ + 1]>>
  IN \A i \in 1..(IF Len(Fl) >= 1 THEN 4 ELSE 1) : (JudgeWith(prog, tests[i], TRUE, Fl)[1] = "ok") = (i = 1)
\* (6) per-qubit projection loses nothing
RECURSIVE SumLen(_, _)
SumLen(ops, i) == IF i > Len(ops) THEN 0 ELSE Len(ops[i].q) + SumLen(ops, i + 1)
RECURSIVE SumPer(_, _)
SumPer(Fl, q) == IF q < 0 THEN 0 ELSE Len(PerQubit(Fl, q)) + SumPer(Fl, q - 1)
ProjectionComplete(Fl) == SumPer(Fl, NQ(prog) - 1) = SumLen(Fl, 1)

\* the three flat lists needed: of the program, of it with user gates inlined once, and twice
Consistent == IsProgram =>
  LET ps == <<prog, Inlined(prog), Inlined(Inlined(prog))>>
      fl == TLCEval([i \in 1..3 |-> Flat(ps[i])]) IN
  /\ Named("Generated", Generated(fl[1]))
  /\ Named("InRange", InRange(fl[1]))
  /\ Named("InlineInvariant", SameFlat(fl[1], fl[2]) /\ SameFlat(fl[1], fl[3]))
  /\ Named("ExprLaws", ExprLaws)
  /\ Named("ComparisonSound", ComparisonSound(fl[1]))
  /\ Named("ProjectionComplete", ProjectionComplete(fl[1]))

\* export of every program to the harness (runs once per distinct state)
Export == IsProgram => PrintT(<<"AST", fam, ToJson(prog)>>)
=============================================================================
