SPECIFICATION Spec
CONSTANTS
  Size = 0
  MaxStmts = 2
  Fams = {"expr", "bind", "struct"}
INVARIANTS Generated InRange InlineInvariant ExprLaws ComparisonSound ProjectionComplete Export
CHECK_DEADLOCK FALSE
