SPECIFICATION Spec
CONSTANTS
  Size = 0
  MaxStmts = 2
  Fams = {"expr", "bind", "struct"}
INVARIANTS Consistent Export
CHECK_DEADLOCK FALSE
