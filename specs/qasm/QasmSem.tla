------------------------------ MODULE QasmSem ------------------------------
(* C17 (L1): denotation of a program of the OpenQASM 2 subset as a flat list of operations.

   A program P is an abstract syntax tree (all fields always present):
     P.qregs, P.cregs : sequences of [n |-> name, s |-> size]          (declaration order)
     P.gates          : sequence of [name, np, nq, body], body = sequence of
                        [g |-> gate name, p |-> <<expr>>, q |-> <<formal qubit index, 1-based>>]
     P.stmts          : sequence of statements
        [k |-> "app",     g, p |-> <<expr>>, q |-> <<arg>>, c |-> <<>>]
        [k |-> "barrier", g |-> "", p |-> <<>>, q |-> <<arg>>, c |-> <<>>]
        [k |-> "measure", g |-> "", p |-> <<>>, q |-> <<arg>>, c |-> <<carg>>]
        [k |-> "reset",   g |-> "", p |-> <<>>, q |-> <<arg>>, c |-> <<>>]
     arg = [r |-> register name, i |-> index, or -1 for the whole register]
     expr (grammar shaped, so that printing needs no implicit parentheses -- see WellFormedExpr):
        [k |-> "num", m, e, sci]   the decimal literal m * 10^e  (sci: printed with an exponent)
        [k |-> "pi"] | [k |-> "var", i]  (i-th formal parameter of the enclosing gate definition)
        [k |-> "par", x]  a parenthesised sub-expression     [k |-> "neg", x]  unary minus
        [k |-> "add"|"sub"|"mul"|"div"|"pow", x, y]          [k |-> "fn", f, x]  sin/cos/tan/exp/ln/sqrt

   Meaning (OpenQASM 2 paper, sections 3-4): registers are laid out in declaration order; a gate
   application with whole-register arguments is repeated for every index ("broadcast"); a user
   gate is expanded by binding its formal parameters to the *values* of the actual expressions and
   its formal qubits to the actual qubits; barrier/measure/reset act on the flat qubits named.

   Parameter values are exact: a + b*pi with rational a, b (numerators/denominators are kept
   small by the generators; TLC raises on 32-bit overflow, which the harness reports as a
   machinery failure, never as acceptance).  Values are compared as integers scaled by 10^4 with
   pi ~ 314159/100000 and a tolerance of +-2 units; the generators keep |b| <= 40 so the error of
   the approximation of pi stays below 1.1 units.  The value of a function call is NOT decided
   here ("opaque": only that the program is accepted and the rest of it is right).

   Flat(P) is the denotation; JudgeWith(P, obs, strict, Flat(P)) compares an observed flat list with it,
   per qubit, and names the first difference as <<clause, what, feature, gate>> (the fields of the
   finding key).  Used by QasmCheck.tla (observations of BQSKit / Qiskit) and QasmGen.tla (TLC enumerates
   programs and checks consistency properties of these very definitions). *)
EXTENDS Naturals, Integers, Sequences, FiniteSets, TLC

Range(s) == {s[i] : i \in 1..Len(s)}
Abs(x) == IF x < 0 THEN -x ELSE x

\* ------------------------------------------------------------------ rationals <<n, d>>, d > 0
RECURSIVE Gcd(_, _)
Gcd(a, b) == IF b = 0 THEN a ELSE Gcd(b, a % b)
Norm(n, d) == LET s == IF d < 0 THEN -1 ELSE 1
                  g == Gcd(Abs(n), Abs(d))
              IN IF n = 0 THEN <<0, 1>> ELSE <<(s * n) \div g, (s * d) \div g>>
RZero == <<0, 1>>
ROne == <<1, 1>>
RAdd(x, y) == Norm(x[1] * y[2] + y[1] * x[2], x[2] * y[2])
RNeg(x) == <<-x[1], x[2]>>
RMul(x, y) == Norm(x[1] * y[1], x[2] * y[2])
RDiv(x, y) == Norm(x[1] * y[2], x[2] * y[1])
RECURSIVE RPow(_, _)
RPow(x, k) == IF k = 0 THEN ROne ELSE IF k < 0 THEN RDiv(ROne, RPow(x, -k)) ELSE RMul(x, RPow(x, k - 1))
RECURSIVE Pow10(_)
Pow10(k) == IF k = 0 THEN 1 ELSE 10 * Pow10(k - 1)

\* ------------------------------------------------------------------ expression values
\* [st |-> "val" | "opaque" | "bad", a, b, ft, fn]:  a + b*pi;  ft = syntactic feature of strongest
\* rank met while computing it (carried through gate-definition bindings), fn = function name if any.
Rank(ft) == CASE ft = "plain" -> 0 [] ft = "sci" -> 1 [] ft = "neg" -> 2 [] ft = "pow" -> 3 [] ft = "negpow" -> 4 [] ft = "par" -> 5 [] ft = "fn" -> 6
Val(a, b, ft, fn) == [st |-> "val", a |-> a, b |-> b, ft |-> ft, fn |-> fn]
Tag(v, ft, fn) == IF Rank(ft) > Rank(v.ft) THEN [v EXCEPT !.ft = ft, !.fn = fn] ELSE v
Join(v, u) == IF Rank(u.ft) > Rank(v.ft) THEN [ft |-> u.ft, fn |-> u.fn] ELSE [ft |-> v.ft, fn |-> v.fn]

Bin(k, v, u) ==
  LET j0 == Join(v, u)
      j == IF k = "pow" /\ Rank(j0.ft) < Rank("pow") THEN [ft |-> "pow", fn |-> ""] ELSE j0
      R(st, a, b) == [st |-> st, a |-> a, b |-> b, ft |-> j.ft, fn |-> j.fn]
      Bad == R("bad", RZero, RZero)
  IN IF v.st = "bad" \/ u.st = "bad" THEN Bad
     ELSE IF k = "div" /\ (u.st = "opaque" \/ (u.a[1] = 0 /\ u.b[1] = 0)) THEN Bad     \* division by zero, or by a function value
     ELSE IF k = "pow" /\ (v.st = "opaque" \/ u.st = "opaque") THEN Bad
     ELSE IF v.st = "opaque" \/ u.st = "opaque" THEN R("opaque", RZero, RZero)
     ELSE CASE k = "add" -> R("val", RAdd(v.a, u.a), RAdd(v.b, u.b))
            [] k = "sub" -> R("val", RAdd(v.a, RNeg(u.a)), RAdd(v.b, RNeg(u.b)))
            [] k = "mul" -> IF v.b # RZero /\ u.b # RZero THEN Bad          \* pi*pi is outside the domain
                            ELSE IF u.b = RZero THEN R("val", RMul(v.a, u.a), RMul(v.b, u.a))
                            ELSE R("val", RMul(u.a, v.a), RMul(u.b, v.a))
            [] k = "div" -> IF u.b # RZero \/ u.a[1] = 0 THEN Bad
                            ELSE R("val", RDiv(v.a, u.a), RDiv(v.b, u.a))
            [] k = "pow" -> IF u.b # RZero \/ u.a[2] # 1 \/ Abs(u.a[1]) > 6 \/ v.b # RZero THEN Bad
                            ELSE IF u.a[1] < 0 /\ v.a[1] = 0 THEN Bad
                            ELSE R("val", RPow(v.a, u.a[1]), RZero)

RECURSIVE Eval(_, _)
Eval(e, env) ==
  CASE e.k = "num" -> Val(IF e.e >= 0 THEN Norm(e.m * Pow10(e.e), 1) ELSE Norm(e.m, Pow10(-e.e)), RZero,
                          IF e.sci THEN "sci" ELSE "plain", "")
    [] e.k = "pi"  -> Val(RZero, ROne, "plain", "")
    [] e.k = "var" -> env[e.i]
    [] e.k = "par" -> Tag(Eval(e.x, env), "par", "")
    [] e.k = "neg" -> LET v == Eval(e.x, env) IN Tag([v EXCEPT !.a = RNeg(@), !.b = RNeg(@)], "neg", "")
    [] e.k = "fn"  -> LET v == Eval(e.x, env) IN
                      Tag([v EXCEPT !.st = IF @ = "bad" THEN "bad" ELSE "opaque", !.a = RZero, !.b = RZero], "fn", e.f)
    [] e.k \in {"add", "sub", "mul", "div"} -> Bin(e.k, Eval(e.x, env), Eval(e.y, env))
    [] e.k = "pow" -> LET v == Eval(e.x, env)  r == Bin("pow", v, Eval(e.y, env)) IN
                      \* a formal parameter bound to a negative value, raised to a power: (-3)^2 = 9, not -(3^2)
                      IF e.x.k = "var" /\ v.st = "val" /\ v.a[1] < 0 THEN Tag(r, "negpow", "") ELSE r

\* grammar level of an expression: 1 exp (+ -), 2 term (* /), 3 unary (-x), 4 power (^), 5 primary
Level(e) == CASE e.k \in {"add", "sub"} -> 1 [] e.k \in {"mul", "div"} -> 2 [] e.k = "neg" -> 3 [] e.k = "pow" -> 4 [] OTHER -> 5
RECURSIVE WellFormedExpr(_, _)
WellFormedExpr(e, nvars) ==
  CASE e.k = "num" -> e.m >= 0 /\ e.e \in -9..3
    [] e.k = "pi" -> TRUE
    [] e.k = "var" -> e.i \in 1..nvars
    [] e.k \in {"par", "fn"} -> WellFormedExpr(e.x, nvars)
    [] e.k = "neg" -> Level(e.x) >= 3 /\ WellFormedExpr(e.x, nvars)
    [] e.k \in {"add", "sub"} -> Level(e.y) >= 2 /\ WellFormedExpr(e.x, nvars) /\ WellFormedExpr(e.y, nvars)
    [] e.k \in {"mul", "div"} -> Level(e.x) >= 2 /\ Level(e.y) >= 3 /\ WellFormedExpr(e.x, nvars) /\ WellFormedExpr(e.y, nvars)
    [] e.k = "pow" -> Level(e.x) = 5 /\ Level(e.y) >= 3 /\ WellFormedExpr(e.x, nvars) /\ WellFormedExpr(e.y, nvars)
    [] OTHER -> FALSE

\* integer value scaled by 10^4 (round to nearest); pi*10^4 ~ 314159/10
RoundDiv(n, d) == IF n >= 0 THEN (2 * n + d) \div (2 * d) ELSE -((2 * (-n) + d) \div (2 * d))
Scaled(v) == RoundDiv(v.a[1] * 10000, v.a[2]) + RoundDiv(v.b[1] * 314159, 10 * v.b[2])
FeatureName(ft, fn) == CASE ft = "plain" -> "plain-expression" [] ft = "sci" -> "scientific-notation"
                         [] ft = "neg" -> "unary-minus" [] ft = "pow" -> "power" [] ft = "negpow" -> "power-of-negative-formal"
                         [] ft = "par" -> "parenthesised-expression" [] ft = "fn" -> "fn:" \o fn
ParamOf(v) == [known |-> v.st = "val", bad |-> v.st = "bad", v |-> IF v.st = "val" THEN Scaled(v) ELSE 0,
               ft |-> FeatureName(v.ft, v.fn)]

\* ------------------------------------------------------------------ registers
RECURSIVE SumSizes(_, _)
SumSizes(regs, k) == IF k = 0 THEN 0 ELSE regs[k].s + SumSizes(regs, k - 1)
HasReg(regs, name) == \E i \in 1..Len(regs) : regs[i].n = name
RegIdx(regs, name) == CHOOSE i \in 1..Len(regs) : regs[i].n = name
RegSize(regs, name) == regs[RegIdx(regs, name)].s
Offset(regs, name) == SumSizes(regs, RegIdx(regs, name) - 1)
NQ(P) == SumSizes(P.qregs, Len(P.qregs))
Whole(a) == a.i < 0
\* the flat qubit an argument denotes in the k-th (0-based) repetition of a broadcast statement
QAt(P, a, k) == Offset(P.qregs, a.r) + (IF Whole(a) THEN k ELSE a.i)
Reps(P, args) == IF \E j \in 1..Len(args) : Whole(args[j])
                 THEN RegSize(P.qregs, args[CHOOSE j \in 1..Len(args) : Whole(args[j])].r) ELSE 1
RECURSIVE AllQubits(_, _, _)
AllQubits(P, args, j) == IF j > Len(args) THEN <<>> ELSE
   (IF Whole(args[j]) THEN [k \in 1..RegSize(P.qregs, args[j].r) |-> Offset(P.qregs, args[j].r) + k - 1]
    ELSE <<QAt(P, args[j], 0)>>) \o AllQubits(P, args, j + 1)
NonFirst(P, args) == \E j \in 1..Len(args) : Offset(P.qregs, args[j].r) > 0

\* ------------------------------------------------------------------ gates
IsCustom(P, g) == \E j \in 1..Len(P.gates) : P.gates[j].name = g
GateDef(P, g) == P.gates[CHOOSE j \in 1..Len(P.gates) : P.gates[j].name = g]
\* flat operation: g, q (flat qubits), p (ParamOf records), cr/ci (classical bit of a measure), sf (structural feature)
FOp(g, q, p, cr, ci, sf) == [g |-> g, q |-> q, p |-> p, cr |-> cr, ci |-> ci, sf |-> sf]

RECURSIVE ExpandGate(_, _, _, _, _), ExpandBody(_, _, _, _, _, _)
ExpandGate(P, g, vals, qs, sf) ==
  IF ~IsCustom(P, g) THEN << FOp(g, qs, TLCEval([i \in 1..Len(vals) |-> ParamOf(vals[i])]), "", -1, sf) >>
  ELSE ExpandBody(P, GateDef(P, g), vals, qs,
                  IF sf = "register-broadcast" THEN sf ELSE IF sf \in {"custom-gate", "nested-custom-gate"} THEN "nested-custom-gate" ELSE "custom-gate", 1)
\* statements i.. of the body of definition d, formals bound to the values vals and the flat qubits qs
ExpandBody(P, d, vals, qs, sf, i) ==
  IF i > Len(d.body) THEN <<>>
  ELSE LET st == d.body[i] IN
       ExpandGate(P, st.g, TLCEval([j \in 1..Len(st.p) |-> Eval(st.p[j], vals)]),
                  TLCEval([j \in 1..Len(st.q) |-> qs[st.q[j]]]), sf) \o ExpandBody(P, d, vals, qs, sf, i + 1)

\* the k-th .. last repetition of a (possibly broadcast) gate application
RECURSIVE ExpandReps(_, _, _, _, _, _)
ExpandReps(P, st, vals, sf, k, n) ==
  IF k >= n THEN <<>>
  ELSE ExpandGate(P, st.g, vals, TLCEval([j \in 1..Len(st.q) |-> QAt(P, st.q[j], k)]), sf) \o ExpandReps(P, st, vals, sf, k + 1, n)

ExpandStmt(P, st) ==
  CASE st.k = "app" ->
         ExpandReps(P, st, TLCEval([j \in 1..Len(st.p) |-> Eval(st.p[j], <<>>)]),
                    IF \E j \in 1..Len(st.q) : Whole(st.q[j]) THEN "register-broadcast"
                    ELSE IF NonFirst(P, st.q) THEN "non-first-register" ELSE "first-register",
                    0, Reps(P, st.q))
    [] st.k = "barrier" -> << FOp("barrier", AllQubits(P, st.q, 1), <<>>, "", -1, "barrier") >>
    [] st.k = "measure" ->
         LET a == st.q[1]  c == st.c[1]  n == Reps(P, st.q) IN
         [k \in 1..n |-> FOp("measure", <<QAt(P, a, k - 1)>>, <<>>, c.r, IF Whole(c) THEN k - 1 ELSE c.i, "measure")]
    [] st.k = "reset" ->
         LET a == st.q[1]  n == Reps(P, st.q) IN
         [k \in 1..n |-> FOp("reset", <<QAt(P, a, k - 1)>>, <<>>, "", -1, "reset")]

RECURSIVE ProgFrom(_, _)
ProgFrom(P, i) == IF i > Len(P.stmts) THEN <<>> ELSE ExpandStmt(P, P.stmts[i]) \o ProgFrom(P, i + 1)
Flat(P) == ProgFrom(P, 1)

\* ------------------------------------------------------------------ well-formedness of an AST (guards the generators)
\* name -> <<number of parameters, number of qubits>> of every library name the generators may use
Builtin(g) ==
  CASE g \in {"x", "y", "z", "h", "s", "sdg", "t", "tdg", "sx", "sxdg", "id", "v", "st"} -> <<0, 1>>
    [] g \in {"rx", "ry", "rz", "u1", "p"} -> <<1, 1>>
    [] g \in {"u2", "u1q", "U1q"} -> <<2, 1>>
    [] g \in {"u3", "u", "U", "pxz"} -> <<3, 1>>
    [] g \in {"cx", "CX", "cy", "cz", "ch", "swap", "csx", "cv", "cs", "ct", "b", "ecr", "iswap", "sqisw", "syc", "xx", "yy", "zz"} -> <<0, 2>>
    [] g \in {"crx", "cry", "crz", "cu1", "cp", "rxx", "ryy", "rzz"} -> <<1, 2>>
    [] g \in {"cu2", "fsim", "mpry", "mprz"} -> <<2, 2>>
    [] g = "cu3" -> <<3, 2>>
    [] g = "cu" -> <<4, 2>>
    [] g = "diag" -> <<3, 2>>
    [] g \in {"ccx", "cswap", "rccx", "iccx"} -> <<0, 3>>
    [] g = "ccp" -> <<1, 3>>
    [] g \in {"c3x", "rc3x", "c3sqrtx"} -> <<0, 4>>
    [] g = "c4x" -> <<0, 5>>
    [] OTHER -> <<-1, -1>>
\* a gate name is visible in definition number k only if it is a library name or defined earlier
Visible(P, g, upto) == IF \E j \in 1..upto : P.gates[j].name = g
                       THEN LET d == P.gates[CHOOSE j \in 1..upto : P.gates[j].name = g] IN <<d.np, d.nq>>
                       ELSE Builtin(g)
Distinct(s) == \A i, j \in 1..Len(s) : i # j => s[i] # s[j]
QArgOK(P, a) == HasReg(P.qregs, a.r) /\ a.i < RegSize(P.qregs, a.r)
WellFormed(P) ==
  /\ Len(P.qregs) >= 1 /\ \A i \in 1..Len(P.qregs) : P.qregs[i].s >= 1
  /\ Distinct([i \in 1..Len(P.qregs) |-> P.qregs[i].n]) /\ Distinct([i \in 1..Len(P.cregs) |-> P.cregs[i].n])
  /\ Distinct([i \in 1..Len(P.gates) |-> P.gates[i].name])
  /\ \A k \in 1..Len(P.gates) : LET d == P.gates[k] IN
       /\ Builtin(d.name) = <<-1, -1>>
       /\ \A i \in 1..Len(d.body) : LET st == d.body[i] IN
            /\ Visible(P, st.g, k - 1) = <<Len(st.p), Len(st.q)>>
            /\ Distinct(st.q) /\ \A j \in 1..Len(st.q) : st.q[j] \in 1..d.nq
            /\ \A j \in 1..Len(st.p) : WellFormedExpr(st.p[j], d.np)
  /\ \A i \in 1..Len(P.stmts) : LET st == P.stmts[i] IN
       /\ \A j \in 1..Len(st.q) : QArgOK(P, st.q[j])
       /\ CASE st.k = "app" -> /\ Visible(P, st.g, Len(P.gates)) = <<Len(st.p), Len(st.q)>>
                               /\ \A j, l \in 1..Len(st.q) : (Whole(st.q[j]) /\ Whole(st.q[l])) => RegSize(P.qregs, st.q[j].r) = RegSize(P.qregs, st.q[l].r)
                               /\ \A j \in 1..Len(st.p) : WellFormedExpr(st.p[j], 0)
                               /\ \A k \in 0..Reps(P, st.q) - 1 : Distinct([j \in 1..Len(st.q) |-> QAt(P, st.q[j], k)])
            [] st.k = "barrier" -> Len(st.q) >= 1 /\ Distinct(AllQubits(P, st.q, 1))
            [] st.k = "measure" -> /\ Len(st.q) = 1 /\ Len(st.c) = 1 /\ HasReg(P.cregs, st.c[1].r)
                                   /\ st.c[1].i < RegSize(P.cregs, st.c[1].r)
                                   /\ Whole(st.q[1]) = Whole(st.c[1])
                                   /\ (Whole(st.q[1]) => RegSize(P.qregs, st.q[1].r) = RegSize(P.cregs, st.c[1].r))
            [] st.k = "reset" -> Len(st.q) = 1
            [] OTHER -> FALSE

\* ------------------------------------------------------------------ comparison with an observed flat list
\* observed op: [g, q (flat qubits), p (integers scaled by 10^4), m (sequence of [k, r, i]: qubit k -> classical bit r[i])]
\* Names that denote the same operation up to a global phase (or are spellings of the same library gate)
Canon(g, nq) ==
  CASE g \in {"u3", "u", "U"} -> "u3"
    [] g \in {"cx", "CX"} -> "cx"
    [] g \in {"p", "u1", "rz"} -> "rz"          \* p = u1 = e^{i l/2} rz(l): equal up to global phase
    [] g \in {"cp", "cu1"} -> "cp"
    [] g \in {"id", "identity1"} -> "id"        \* BQSKit spells its one-qubit identity "identity1"
    [] g \in {"sx", "v"} -> "sx"
    [] g \in {"csx", "cv"} -> "csx"
    [] g \in {"rc3x", "rcccx"} -> "rc3x"        \* Qiskit's names for the same library gates
    [] g = "c3sx" -> "c3sqrtx"
    [] g = "mcx" -> IF nq = 4 THEN "c3x" ELSE IF nq = 5 THEN "c4x" ELSE g
    [] g \in {"u1q", "U1q"} -> "u1q"
    [] OTHER -> g
Close(x, y) == x - y \in -2..2
\* the XX/YY/ZZ gates are spelled as a rotation by pi/2
HalfPi == 15708
NormName(g) == CASE g \in {"xx", "rxx(pi/2)"} -> "rxx" [] g \in {"yy", "ryy(pi/2)"} -> "ryy" [] g \in {"zz", "rzz(pi/2)"} -> "rzz" [] OTHER -> g
IsHalfPiName(g) == g \in {"xx", "rxx(pi/2)", "yy", "ryy(pi/2)", "zz", "rzz(pi/2)"}
ExpParams(e) == IF IsHalfPiName(e.g) THEN <<[known |-> TRUE, bad |-> FALSE, v |-> HalfPi, ft |-> "plain-expression"]>> ELSE e.p
ObsParams(o) == IF IsHalfPiName(o.g) THEN <<HalfPi>> ELSE o.p

Touches(o, q) == \E j \in 1..Len(o.q) : o.q[j] = q
PerQubit(ops, q) == SelectSeq(ops, LAMBDA o : Touches(o, q))

\* "" when the observed op o is what the expected op e says on qubit q; otherwise what differs
DiffAt(e, o, q) ==
  CASE e.g = "measure" ->
         IF o.g # "measure" THEN "name"
         ELSE IF /\ Len(o.m) = Len(o.q)
                 /\ \A j \in 1..Len(o.m) : Touches(o, o.m[j].k)
                 /\ \E j \in 1..Len(o.m) : o.m[j].k = q /\ o.m[j].r = e.cr /\ o.m[j].i = e.ci
                 /\ \A j, l \in 1..Len(o.m) : j # l => o.m[j].k # o.m[l].k
              THEN "" ELSE "classical-bit"
    [] e.g = "reset" -> IF o.g # "reset" THEN "name" ELSE IF o.q = <<q>> THEN "" ELSE "qubits"
    [] e.g = "barrier" -> IF o.g # "barrier" THEN "name"
                          ELSE IF Range(o.q) = Range(e.q) /\ Len(o.q) = Len(e.q) THEN "" ELSE "qubits"
    [] OTHER ->
         LET ep == ExpParams(e)  op == ObsParams(o) IN
         IF Canon(NormName(o.g), Len(o.q)) # Canon(NormName(e.g), Len(e.q)) THEN "name"
         ELSE IF o.q # e.q THEN "qubits"
         ELSE IF Len(op) # Len(ep) THEN "param-count"
         ELSE IF \E j \in 1..Len(ep) : ep[j].known /\ ~Close(ep[j].v, op[j]) THEN "param"
         ELSE ""
\* feature of the first parameter that differs (for the finding key)
ParamFeature(e, o) == LET ep == ExpParams(e) op == ObsParams(o)
                          j == CHOOSE i \in 1..Len(ep) : (ep[i].known /\ ~Close(ep[i].v, op[i])) /\ \A l \in 1..i - 1 : ~(ep[l].known /\ ~Close(ep[l].v, op[l]))
                      IN ep[j].ft

\* program-level features for statement kinds whose mismatch may show on a qubit the program did not mention
MeasureFeature(P) ==
  LET S == {i \in 1..Len(P.stmts) : P.stmts[i].k = "measure"}
      nf(i) == Offset(P.qregs, P.stmts[i].q[1].r) > 0
      w(i) == Whole(P.stmts[i].q[1]) IN
  IF \E i \in S : ~w(i) /\ nf(i) THEN "single-bit-measure-non-first-register"
  ELSE IF \E i \in S : w(i) /\ nf(i) THEN "whole-register-measure-non-first-register"
  ELSE IF \E i \in S : w(i) THEN "whole-register-measure" ELSE "single-bit-measure"
ResetFeature(P) ==
  LET S == {i \in 1..Len(P.stmts) : P.stmts[i].k = "reset"}
      nf(i) == Offset(P.qregs, P.stmts[i].q[1].r) > 0
      w(i) == Whole(P.stmts[i].q[1]) IN
  IF \E i \in S : w(i) /\ nf(i) THEN "register-reset-non-first-register"
  ELSE IF \E i \in S : w(i) THEN "register-reset"
  ELSE IF \E i \in S : nf(i) THEN "qubit-reset-non-first-register" ELSE "qubit-reset"
BarrierFeature(P) ==
  LET S == {i \in 1..Len(P.stmts) : P.stmts[i].k = "barrier"} IN
  IF \E i \in S : \E j \in 1..Len(P.stmts[i].q) : Whole(P.stmts[i].q[j]) THEN "register-barrier" ELSE "qubit-barrier"

\* first difference between expected and observed per-qubit sequences: lowest qubit, then lowest position
\* (operators below are applied at a single place each and results are passed on as arguments: TLC's -coverage
\*  instruments every application site separately, and the expression evaluator under them is deep)
MismatchAt(E, O, q) ==
  LET eq == PerQubit(E, q)  oq == PerQubit(O, q)
      n == IF Len(eq) < Len(oq) THEN Len(eq) ELSE Len(oq)
      d == TLCEval([i \in 1..n |-> DiffAt(eq[i], oq[i], q)])
      bad == {i \in 1..n : d[i] # ""}
  IN IF bad # {} THEN LET i == CHOOSE x \in bad : \A y \in bad : x <= y IN
                      [pos |-> i, what |-> d[i], he |-> TRUE, ho |-> TRUE, e |-> eq[i], o |-> oq[i]]
     ELSE IF Len(eq) > Len(oq) THEN [pos |-> n + 1, what |-> "missing-op", he |-> TRUE, ho |-> FALSE, e |-> eq[n + 1], o |-> eq[n + 1]]
     ELSE IF Len(oq) > Len(eq) THEN [pos |-> n + 1, what |-> "extra-op", he |-> FALSE, ho |-> TRUE, e |-> oq[n + 1], o |-> oq[n + 1]]
     ELSE [pos |-> 0, what |-> "", he |-> FALSE, ho |-> FALSE, e |-> 0, o |-> 0]

\* the functions a program calls anywhere (definitions are read eagerly, applied or not), as "cos+exp+" ...
RECURSIVE FnsOfExpr(_)
FnsOfExpr(e) == CASE e.k = "fn" -> {e.f} \cup FnsOfExpr(e.x)
                  [] e.k \in {"par", "neg"} -> FnsOfExpr(e.x)
                  [] e.k \in {"add", "sub", "mul", "div", "pow"} -> FnsOfExpr(e.x) \cup FnsOfExpr(e.y)
                  [] OTHER -> {}
FnsOfProgram(P) ==
  UNION ({FnsOfExpr(P.stmts[x[1]].p[x[2]]) : x \in {y \in (1..Len(P.stmts)) \X (1..6) : y[2] <= Len(P.stmts[y[1]].p)}}
         \cup {FnsOfExpr(P.gates[x[1]].body[x[2]].p[x[3]]) :
                 x \in {y \in (1..Len(P.gates)) \X (1..8) \X (1..6) : y[2] <= Len(P.gates[y[1]].body) /\ y[3] <= Len(P.gates[y[1]].body[y[2]].p)}})
FnTag(P) == LET S == FnsOfProgram(P)  T(f) == IF f \in S THEN f \o "+" ELSE "" IN
            T("cos") \o T("exp") \o T("ln") \o T("sin") \o T("sqrt") \o T("tan")
UsesBroadcast(P) == \E i \in 1..Len(P.stmts) : P.stmts[i].k = "app" /\ \E j \in 1..Len(P.stmts[i].q) : Whole(P.stmts[i].q[j])
\* the first statement (readers work in program order) that uses one of: the built-in U / CX on a whole register;
\* an argument list that starts with two or more whole registers (a, b, ...); broadcast of a gate over a register
StmtRisk(st) ==
  IF st.k = "app" /\ st.g \in {"U", "CX"} /\ \E j \in 1..Len(st.q) : Whole(st.q[j]) THEN "builtin-gate-broadcast"
  ELSE IF st.k \in {"app", "barrier"} /\ Len(st.q) >= 2 /\ Whole(st.q[1]) /\ Whole(st.q[2]) THEN "leading-register-list"
  ELSE IF st.k = "app" /\ \E j \in 1..Len(st.q) : Whole(st.q[j]) THEN "register-broadcast"
  ELSE "none"
\* (plain broadcast is either declined with a LangException or, over a one-qubit register, simply works: it is only
\*  named when no statement of the two other kinds exists)
RiskFeature(P) == LET S == {i \in 1..Len(P.stmts) : StmtRisk(P.stmts[i]) \in {"builtin-gate-broadcast", "leading-register-list"}} IN
                  IF S # {} THEN StmtRisk(P.stmts[CHOOSE i \in S : \A j \in S : i <= j])
                  ELSE IF UsesBroadcast(P) THEN "register-broadcast" ELSE "none"

FlatError(F) ==
  IF \E i \in 1..Len(F) : \E j \in 1..Len(F[i].p) : F[i].p[j].bad THEN "value-outside-exact-domain"
  ELSE IF \E i \in 1..Len(F) : \E j \in 1..Len(F[i].p) : F[i].p[j].known /\ Abs(F[i].p[j].v) > 2500000 THEN "value-too-large"
  ELSE ""
GeneratorError(P) == IF ~WellFormed(P) THEN "ast-not-well-formed" ELSE FlatError(Flat(P))

\* Result: <<clause, what, feature, gate>>; clause "ok" when the observation is the program's denotation.
\* (for a rejected program: <<clause, exception class, first risky statement feature, functions used>>)
\* obs = [status |-> "ok" | "lang-exception" | "crash" | "skipped", err |-> exception class, nq, ops]
\* strict = FALSE: a clean refusal (LangException) of a program that uses register broadcast of a *gate* is accepted:
\* the property lists "several registers, user-defined gates, expressions, barriers, measurement, reset" and not
\* broadcast, so L1 takes the weaker reading (an implementation may decline it, but must not mis-read it).
JudgeWith(P, obs, strict, E) ==
  IF obs.status = "skipped" THEN <<"ok", "", "", "">>
  ELSE IF obs.status # "ok" THEN
     IF ~strict /\ obs.status = "lang-exception" /\ UsesBroadcast(P) THEN <<"ok", "", "", "">>
     ELSE <<IF FnTag(P) # "" THEN "function-call-fails" ELSE "rejected-valid-program", obs.err, RiskFeature(P), FnTag(P)>>
  ELSE IF obs.nq # NQ(P) THEN <<"num-qubits-differs", "nq", "none", "">>
  ELSE IF \E i \in 1..Len(obs.ops) : \E j \in 1..Len(obs.ops[i].q) : obs.ops[i].q[j] \notin 0..NQ(P) - 1
       THEN <<"denotation-differs", "qubit-out-of-range", "none", "">>
  ELSE LET mmf == TLCEval([q \in 0..NQ(P) - 1 |-> MismatchAt(E, obs.ops, q)])
           badq == {q \in 0..NQ(P) - 1 : mmf[q].what # ""}
       IN IF badq = {} THEN <<"ok", "", "", "">>
          ELSE LET q == CHOOSE x \in badq : \A y \in badq : x <= y
                   mm == mmf[q]
                   \* an observed reset / measure / barrier where something else (or nothing) is expected is that statement's fault
                   kind == IF mm.ho /\ mm.o.g \in {"reset", "measure", "barrier"} /\ mm.o.g # mm.e.g THEN mm.o.g ELSE mm.e.g
                   feature == CASE kind = "measure" -> MeasureFeature(P)
                                [] kind = "reset" -> ResetFeature(P)
                                [] kind = "barrier" -> BarrierFeature(P)
                                [] OTHER -> IF mm.what = "param" THEN ParamFeature(mm.e, mm.o)
                                            ELSE IF mm.he THEN mm.e.sf ELSE "unexpected-op"
                   clause == CASE kind = "measure" -> "measure-placement-differs"
                               [] kind = "reset" -> "reset-placement-differs"
                               [] kind = "barrier" -> "barrier-placement-differs"
                               [] OTHER -> "denotation-differs"
               IN <<clause, mm.what, feature, Canon(NormName(kind), Len(mm.e.q))>>
Judge(P, obs, strict) == JudgeWith(P, obs, strict, Flat(P))
=============================================================================
