----------------------------- MODULE QasmCheck -----------------------------
(* C17: batch validation of observations of the implementation against QasmSem.

   One case = one program (abstract syntax tree, see QasmSem) plus what each reader made of its text:
     kind "decode":  text printed from the tree by the harness; bq = BQSKit's decoded circuit, flattened;
                     qk = Qiskit's qasm2 loader on the same text, flattened.  Qiskit is validated against
                     the SAME denotation: a Qiskit verdict means the specification (or printer) is wrong and
                     is raised as a machinery failure by the harness, never as a verdict on BQSKit.
     kind "rt":      the tree describes a circuit (one register; nested CircuitGates as gate definitions
                     whose formals are used once each, in order).  pre = the built circuit, flattened (guards
                     the harness); enc = status of encode; bq = decode(encode(c)) flattened; qk = Qiskit on
                     encode(c); fine = per-parameter high-precision digits before/after.
     kind "rtu":     exact (monomial) domain: ops = Monomial.tla records of a circuit, obs = table read off
                     decode(encode(c)).get_unitary(), compared with Monomial.SemTable up to global phase. *)
EXTENDS QasmSem, Json, IOUtils, Monomial

Cases == JsonDeserialize(IOEnv.TRACE_FILE)
VARIABLES tid
C == Cases[tid]

Report(who, v) == IF v[1] = "ok" THEN TRUE ELSE PrintT(<<"VERDICT", tid, 0, v[1], who, v[2], v[3], v[4]>>)

\* high-precision comparison of parameters across the round trip: each parameter is <<hi, lo>> with
\* value (hi + lo / 10^9) / 10^3, i.e. 12 decimal digits; equal up to 2 units of the last digit.
FineClose(x, y) == \/ x[1] = y[1] /\ x[2] - y[2] \in -2..2
                   \/ x[1] = y[1] + 1 /\ (x[2] + 1000000000) - y[2] \in -2..2
                   \/ y[1] = x[1] + 1 /\ (y[2] + 1000000000) - x[2] \in -2..2
FineVerdict(P) ==
  LET A == C.pre.ops  B == C.bq.ops
      badq == {q \in 0..NQ(P) - 1 :
                 LET a == PerQubit(A, q)  b == PerQubit(B, q) IN
                 \/ Len(a) # Len(b)
                 \/ \E i \in 1..Len(a) : ~IsHalfPiName(a[i].g) /\      \* XX/YY/ZZ are spelled with a literal "pi/2"
                                         (\/ Len(a[i].f) # Len(b[i].f)
                                          \/ \E j \in 1..Len(a[i].f) : ~FineClose(a[i].f[j], b[i].f[j]))}
  IN IF badq = {} THEN <<"ok", "", "", "">> ELSE <<"roundtrip-precision-lost", "param", "none", "">>

Rename(v, clause) == IF v[1] = "ok" THEN v ELSE <<clause, v[2], v[3], v[4]>>

DecodeCheck ==
  LET P == C.prog
      E == Flat(P)
      g == IF ~WellFormed(P) THEN "ast-not-well-formed" ELSE FlatError(E) IN
  IF g # "" THEN PrintT(<<"VERDICT", tid, 0, "generator-error", "harness", g, "", "">>)
  ELSE /\ Report("bqskit", JudgeWith(P, C.bq, FALSE, E))
       /\ Report("qiskit", JudgeWith(P, C.qk, TRUE, E))

RtCheck ==
  LET P == C.prog
      E == Flat(P)
      g == IF ~WellFormed(P) THEN "ast-not-well-formed" ELSE FlatError(E) IN
  IF g # "" THEN PrintT(<<"VERDICT", tid, 0, "generator-error", "harness", g, "", "">>)
  ELSE LET pre == JudgeWith(P, C.pre, TRUE, E) IN
       IF pre[1] # "ok" THEN PrintT(<<"VERDICT", tid, 0, "generator-error", "harness", "built-circuit-differs:" \o pre[1] \o ":" \o pre[2], pre[3], pre[4]>>)
       ELSE IF C.enc.status # "ok" THEN PrintT(<<"VERDICT", tid, 0, "encode-fails", "bqskit", C.enc.err, C.suspect, C.suspect>>)
       ELSE /\ IF C.bq.status # "ok" THEN PrintT(<<"VERDICT", tid, 0, "roundtrip-unreadable", "bqskit", C.bq.err, C.suspect, C.suspect>>)
               ELSE LET v == JudgeWith(P, C.bq, TRUE, E) IN
                    IF v[1] # "ok" THEN Report("bqskit", <<"roundtrip-differs", v[2], v[3], v[4]>>)
                    ELSE Report("bqskit", FineVerdict(P))
            /\ IF C.qk.status \in {"ok", "skipped"} THEN Report("qiskit-on-export", Rename(JudgeWith(P, C.qk, TRUE, E), "export-differs-under-qiskit"))
               ELSE PrintT(<<"VERDICT", tid, 0, "export-rejected-by-qiskit", "qiskit-on-export", C.qk.err, C.shape, C.suspect>>)

RtuCheck ==
  \* the circuit BEFORE the round trip must already be what Monomial.tla says, otherwise the case is not C17's to judge
  IF ~(ObsOK(C.pre) /\ SameUpToPhase(ObsTable(C.pre), SemTable(C.ops, C.r))) THEN PrintT(<<"VERDICT", tid, 0, "exact-domain-undecided", "harness-exact", "circuit-before-round-trip-differs-from-Monomial", "", "">>)
  ELSE IF C.status # "ok" THEN PrintT(<<"VERDICT", tid, 0, "roundtrip-unreadable", "bqskit", C.err, "exact-domain", "">>)
  ELSE IF ~ObsOK(C.obs) THEN PrintT(<<"VERDICT", tid, 0, "roundtrip-unitary-differs", "bqskit", "not-monomial", "exact-domain", "">>)
  ELSE IF ~SameUpToPhase(ObsTable(C.obs), SemTable(C.ops, C.r)) THEN PrintT(<<"VERDICT", tid, 0, "roundtrip-unitary-differs", "bqskit", "table", "exact-domain", "">>)
  ELSE TRUE

\* One behaviour per case.  The cases are reached from a few lane states (tid < 0) rather than being initial states,
\* because TLC checks the invariant on initial states with a single thread but on successors with all its workers.
Lanes == 16
Init == tid \in -Lanes..-1
Next == tid < 0 /\ tid' \in {i \in 1..Len(Cases) : i % Lanes = (-tid) - 1}
Spec == Init /\ [][Next]_tid
Check == tid < 0 \/
         CASE C.kind = "decode" -> DecodeCheck
           [] C.kind = "rt" -> RtCheck
           [] C.kind = "rtu" -> RtuCheck
=============================================================================
