SPECIFICATION Spec
CONSTANTS
  Size = 1
  MaxStmts = 2
  Fams = {"expr", "bind", "struct"}
INVARIANTS Consistent Export
CHECK_DEADLOCK FALSE
