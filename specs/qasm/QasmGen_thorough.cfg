SPECIFICATION Spec
CONSTANTS
  Size = 1
  MaxStmts = 2
  Fams = {"expr", "bind", "struct"}
INVARIANTS Generated InRange InlineInvariant ExprLaws ComparisonSound ProjectionComplete Export
CHECK_DEADLOCK FALSE
