\* Reference configuration (the check generates its own: see QP_CONFIGS / QP_SEARCH in harness/checks/c08.py).
\* Every circuit of 1..4 operations on 3 qudits, gates of arity 1-3, barriers on every qudit set, block sizes 2 and 3.
\* With BarrierFix = FALSE (the code as it is) the verdicts of the runs are printed (<<"L2VERDICT", ...>>);
\* with BarrierFix = TRUE add ResOK to INVARIANTS.
\* Directed search for circuits in which the transitive half of the blocked-qudit bookkeeping decides:
\*   NQ = 6, MaxOps = 5, BlockSizes = {3}, GateArities = {2, 3}, BarrierMode = "none", Slack = 2, EmitMechs = {"trans"},
\*   CONSTRAINT Directed
SPECIFICATION Spec
CONSTANTS
  NQ = 3
  MaxOps = 4
  BlockSizes = {2, 3}
  GateArities = {1, 2, 3}
  BarrierMode = "any"
  Threshold = 5
  BarrierFix = FALSE
  PrefixMode = "none"
  EmitMod = 0
  MinFinal = 1
  EmitMechs = {}
  Slack = 99
  Target = "trans"
INVARIANTS AssertsHold Shape
CHECK_DEADLOCK FALSE
