------------------------------ MODULE QuickPart ------------------------------
(* C08 (L2): an implementation-shaped model of bqskit/passes/partitioning/quick.py (QuickPartitioner.run,
   Bin, BarrierBin), model-checked for every small circuit, with the L1 acceptance condition
   (PartitionRules!Replay) as its postcondition.

   What is modelled as the code does it:
   * the circuit is iterated in Circuit.operations_with_cycles() order: cycle-major, then by the first
     qudit of the location (the heap of CircuitPoints of the DAG iterator);
   * a Bin has qudits (in order of arrival), starts / ends per qudit, active qudits, blocked qudits and its
     list of operations;  active_bins[q], pending_bins (a list: order matters), dividing_line[q],
     num_closed and the partitioned circuit built so far;
   * close_bin_qudits, Bin.can_accommodate (blocked-but-inactive test, overlapping qudits active, size limit
     max(block_size, len(bin.qudits))), selection of the bin that already holds all qudits else the first
     admissible one, closing of the other bins, the "block qudits to prevent circular dependencies" loop;
   * barrier-like operations (barrier / measurement / reset are the same branch of the code): close every
     overlapping bin on the barrier's qudits, block the barrier's other qudits on bins that stay open, and a
     BarrierBin that fills the volume up to the next operation on each qudit;
   * process_pending_bins(): the first pending bin (list order) all of whose starts sit on the dividing line
     is emitted, merged with blocks in the rear of the partitioned circuit whose location is a subset or a
     superset (never through a barrier), the dividing line moves, repeat;  called when
     num_closed >= Threshold (5 in the code) after a gate, and once at the end after closing every bin;
   * the final RuntimeError("Unable to process all pending bins") is the verdict "pass-raised".

   One abstraction: positions on a qudit are ORDINALS (0 for the first operation on that qudit, 1 for the
   second, ...) instead of cycle numbers.  The code only ever compares dividing_line[q] with starts[q] for
   equality, dividing_line[q] is always the cycle of the first operation on q that has not been emitted
   (ends[q] + 1 is the cycle of the operation that closed q, which is the next one on q; a BarrierBin's
   ends[q] + 1 is the cycle of the next operation on q by construction; num_cycles when there is none), so
   "dl[q] = ordinal of the first operation on q not emitted", st = ordinal of the bin's first operation on q,
   nx = ordinal after its last one is the same comparison.  It lets the model process each operation as it
   is generated (the scan is online), so all circuits with a common prefix share the work.

   The one source of nondeterminism in the code is `list({active_bins[q] for q in location})`: the iteration
   order of a set of Bins (hashed by a process-wide counter).  The model takes every order (`ord`).

   Circuits are generated inside the model, one operation per step, directly in iteration order (the new
   operation's (cycle, first qudit) must be larger than the previous one's): every circuit that
   Circuit.append can build is reached exactly once.  After every prefix the action Finalize closes the
   remaining bins, flushes, and judges the output with PartitionRules!Replay: the verdict goes to `res`
   (and is printed as <<"L2VERDICT", ...>> when it is not "accepted": a design-level counterexample that the
   harness replays on the real pass).

   BarrierFix = TRUE models the proposed repair (the barrier branch runs the same "block qudits" loop as the
   gate branch); with it `ResOK` is an invariant.

   MODEL-BASED TEST GENERATION.  `mech` is a history variable: the set of mechanisms of the algorithm that MADE A
   DIFFERENCE somewhere in the run so far (see Mechs below).  Three of them are defined with shadow copies of
   Bin.blocked_qudits that follow the rule the code would follow WITHOUT one part of the bookkeeping:
     bD  without the transitive half of "block qudits to prevent circular dependencies"
         (active_bin.blocked_qudits.update(selected_bin.blocked_qudits)),
     bQ  when two bins count as related only through a shared qudit (not through active_bin.blocked_qudits),
     bB  without the barrier branch blocking the barrier's foreign qudits on a bin that stays open;
   "trans" / "indirect" / "barblock" enter `mech` exactly when Bin.can_accommodate gives a different answer with the
   shadow set than with the real one: that part of the bookkeeping DECIDED an admissibility test.  The others mark
   decisions of can_accommodate, of the bin selection and of the merge step that a change to the code could get wrong.
   A finalised circuit whose mech meets EmitMechs is printed as <<"QPM", bs, NQ, circuit, mechs>>; the harness feeds
   those circuits back (PrefixMode = "script": the circuits of the JSON file IOEnv.QP_SCRIPTS, every set-iteration
   order, <<"QPS", ...>> printed for every outcome), and replays them into the real pass under several values of the
   process-wide Bin.id counter (which decides the iteration order there).
   * exhaustive search for widths the plain configurations cannot reach: CONSTRAINT Directed prunes every prefix
     from which Target ("trans" / "indirect") cannot be reached within MaxOps operations (necessary conditions: a bin
     can only get a transitive part from a selected bin that already has blocked qudits, and the transitive part can
     only decide a test of a bin that has one) -- all circuits of <= MaxOps operations in which it decides are kept;
   * `-simulate` with MinFinal = MaxOps: random circuits of exactly MaxOps operations, one iteration order each. *)
EXTENDS PartitionRules, TLC, Json, IOUtils

CONSTANTS NQ,            \* number of qudits
          MaxOps,        \* circuits of 1..MaxOps operations
          BlockSizes,    \* set of block sizes tried
          GateArities,   \* set of gate arities generated
          BarrierMode,   \* "any": barrier on every non-empty qudit set; "full": only on all qudits; "none"
          Threshold,     \* num_closed >= Threshold triggers process_pending_bins() in the main loop (code: 5)
          BarrierFix,    \* FALSE: the code as it is; TRUE: with the proposed repair
          PrefixMode,    \* "none", or "close3": a forced beginning (see Prefix) used to reach deep scenarios (five
                         \* closed bins) without enumerating every short circuit again
          EmitMod,       \* 0: print nothing; m > 0: print <<"QP", circuit, output>> for the circuits whose checksum is
                         \* divisible by m (a deterministic sample; they are replayed into the real pass)
          MinFinal,      \* Finalize only circuits of at least MinFinal operations (1: every prefix)
          EmitMechs,     \* print <<"QPM", ...>> for a finalised circuit in which one of these mechanisms made a difference
          Slack,         \* directed search (CONSTRAINT Directed): MaxOps - 3; otherwise >= MaxOps (off)
          Target         \* directed search: the mechanism looked for, "trans" or "indirect"

VARIABLES phase, bs, circ, bins, ab, pend, dl, nc, part, asserts, res,
          mech,          \* history: mechanisms that made a difference so far
          sid            \* PrefixMode = "script": index of the circuit being followed, else 0
vars == <<phase, bs, circ, bins, ab, pend, dl, nc, part, asserts, res, mech, sid>>

\* every mechanism name, in the order they are printed
Mechs == <<"trans", "indirect", "barblock", "blocked", "blocked-active", "wide-bin", "reentry",
           "multi-adm", "multi-overlap", "barrier-partial", "merge-sub", "merge-super", "midflush">>
MechSeq(S) == SelectSeq(Mechs, LAMBDA m : m \in S)

Q == 0..NQ - 1
MaxS(S) == CHOOSE x \in S : \A y \in S : y <= x
MinS(S) == CHOOSE x \in S : \A y \in S : x <= y
RECURSIVE SortedSeq(_)
SortedSeq(S) == IF S = {} THEN <<>> ELSE LET m == MinS(S) IN <<m>> \o SortedSeq(S \ {m})
PermSeqs(S) == {s \in [1..Cardinality(S) -> S] : \A i, j \in 1..Cardinality(S) : i # j => s[i] # s[j]}
RemoveAt(s, i) == SubSeq(s, 1, i - 1) \o SubSeq(s, i + 1, Len(s))

-----------------------------------------------------------------------------
\* the circuit generated so far: operations [bar, loc (ascending), cyc] in iteration order

OpsOn(q) == {i \in 1..Len(circ) : q \in Range(circ[i].loc)}
Cnt(q) == Cardinality(OpsOn(q))                 \* ordinal the next operation on q will get
LastCyc(q) == IF OpsOn(q) = {} THEN -1 ELSE MaxS({circ[i].cyc : i \in OpsOn(q)})

GateLocs == {L \in SUBSET Q : Cardinality(L) \in GateArities}
BarrierLocs == CASE BarrierMode = "any"  -> (SUBSET Q) \ {{}}
                 [] BarrierMode = "full" -> {Q}
                 [] OTHER -> {}

\* the operation on L that Circuit.append would place next, if it keeps the sequence in iteration order
NewOp(bar, L) == [bar |-> bar, loc |-> SortedSeq(L), cyc |-> MaxS({LastCyc(q) : q \in L}) + 1]
\* "close3": three one-qudit bins, then a three-qudit gate that closes all of them when the block size is 2
Prefix == IF PrefixMode = "close3"
          THEN << <<FALSE, {0}>>, <<FALSE, {1}>>, <<FALSE, {2}>>, <<FALSE, {0, 1, 2}>> >>
          ELSE <<>>
\* "script": the circuits to follow, [bs |-> block size, ops |-> <<[b |-> 0/1, loc |-> ascending qudits], ...>>] in
\* iteration order (a script that is not in iteration order has no behaviour: the harness checks that each one finishes)
Scripts == IF PrefixMode = "script" THEN JsonDeserialize(IOEnv.QP_SCRIPTS) ELSE <<>>
PrefixOK(bar, L) == IF PrefixMode = "script"
                    THEN /\ Len(circ) < Len(Scripts[sid].ops)
                         /\ LET p == Scripts[sid].ops[Len(circ) + 1] IN (p.b = 1) = bar /\ Range(p.loc) = L
                    ELSE IF Len(circ) >= Len(Prefix) THEN TRUE
                    ELSE Prefix[Len(circ) + 1][1] = bar /\ Prefix[Len(circ) + 1][2] = L
\* the locations tried for the next operation ("script": only the script's next one, of any arity)
ScriptNext(bar) == IF Len(circ) < Len(Scripts[sid].ops) /\ (Scripts[sid].ops[Len(circ) + 1].b = 1) = bar
                   THEN {Range(Scripts[sid].ops[Len(circ) + 1].loc)} ELSE {}
GateLocsNow == IF PrefixMode = "script" THEN ScriptNext(FALSE) ELSE GateLocs
BarrierLocsNow == IF PrefixMode = "script" THEN ScriptNext(TRUE) ELSE BarrierLocs
InOrder(o) == IF Len(circ) = 0 THEN TRUE
              ELSE LET p == circ[Len(circ)] IN IF o.cyc = p.cyc THEN o.loc[1] > p.loc[1] ELSE o.cyc > p.cyc

-----------------------------------------------------------------------------
\* bins: st / nx are ordinals per qudit (-1: not set)

EmptyBin == [qs |-> <<>>, st |-> [q \in Q |-> -1], nx |-> [q \in Q |-> -1], act |-> {}, blkd |-> {},
             bD |-> {}, bQ |-> {}, bB |-> {},          \* shadow blocked sets (see the head of the module)
             ops |-> <<>>, bar |-> FALSE]

\* close_bin_qudits(bin, loc, cycle) on run state S = [bins, ab, pend, nc, flag]; pos[q] = ordinal of the closing
\* operation on q (the code's `cycle`; ends[q] = cycle - 1)
CloseQudits(S, b, L, pos) ==
  LET bn == S.bins[b]
      closing == L \cap bn.act
      nb == [bn EXCEPT !.act = @ \ L,
                       !.nx = TLCEval([q \in Q |-> IF q \in closing THEN pos[q] ELSE bn.nx[q]])]
      inactive == nb.act = {}
  IN [bins |-> [S.bins EXCEPT ![b] = nb],
      ab   |-> TLCEval([q \in Q |-> IF q \in L /\ S.ab[q] = b THEN 0 ELSE S.ab[q]]),
      pend |-> IF inactive THEN Append(S.pend, b) ELSE S.pend,
      nc   |-> S.nc, flag |-> inactive]

\* close the bins `ids` (a sequence) on the qudits L, counting the ones that became inactive;
\* for a barrier, a bin that stays open gets the barrier's foreign qudits blocked
RECURSIVE CloseSeq(_, _, _, _, _)
CloseSeq(S, ids, L, pos, barrier) ==
  IF ids = <<>> THEN S
  ELSE LET b == Head(ids)
           S1 == CloseQudits(S, b, L, pos)
           S2 == IF S1.flag THEN [S1 EXCEPT !.nc = @ + 1]
                 ELSE IF barrier
                      THEN LET ext == L \ Range(S1.bins[b].qs)
                           IN [S1 EXCEPT !.bins[b].blkd = @ \cup ext, !.bins[b].bD = @ \cup ext,
                                         !.bins[b].bQ = @ \cup ext]          \* bB: without this blocking
                      ELSE S1
       IN CloseSeq(S2, Tail(ids), L, pos, barrier)

\* Bin.can_accommodate with BL as the bin's blocked set
BlockedOK(bn, L, BL) == ~(\E q \in L : q \in BL /\ q \notin bn.act)
ActiveOK(bn, L) == \A q \in L : q \notin Range(bn.qs) \/ q \in bn.act
SizeOK(bn, L) == Cardinality(Range(bn.qs) \cup L) <= (IF bs >= Len(bn.qs) THEN bs ELSE Len(bn.qs))
CanAcc(bn, L, BL) == BlockedOK(bn, L, BL) /\ ActiveOK(bn, L) /\ SizeOK(bn, L)
CanAccommodate(bn, L) == CanAcc(bn, L, bn.blkd)

\* Bin.add_op: operation number i with location loc, pos[q] = its ordinal on q
AddToBin(bn, i, loc, pos) ==
  LET new == SelectSeq(loc, LAMBDA q : q \notin Range(bn.qs))
  IN [bn EXCEPT !.qs = @ \o new, !.act = @ \cup Range(new),
                !.st = TLCEval([q \in Q |-> IF q \in Range(new) THEN pos[q] ELSE bn.st[q]]),
                !.nx = TLCEval([q \in Q |-> IF q \in Range(new) THEN -1 ELSE bn.nx[q]]),
                !.ops = Append(@, i)]

Cur == [bins |-> bins, ab |-> ab, pend |-> pend, nc |-> nc, flag |-> FALSE]
Overlapping(L) == {ab[q] : q \in L} \ {0}
Pos == TLCEval([q \in Q |-> Cnt(q)])

\* the "block qudits to prevent circular dependencies" loop for the selected bin sb with qudits QS; each shadow set
\* follows its own variant of the rule
BlockAgainst(B, abx, skip, QS, sb) ==
  TLCEval([b \in 1..Len(B) |->
     IF b # skip /\ b \in {abx[q] : q \in Q}
     THEN LET bn == B[b]
              Rel(X) == ((X \cup Range(bn.qs)) \cap QS) # {}
          IN [bn EXCEPT !.blkd = IF Rel(bn.blkd) THEN @ \cup QS \cup sb.blkd ELSE @,
                        !.bD   = IF Rel(bn.bD) THEN @ \cup QS ELSE @,
                        !.bQ   = IF (Range(bn.qs) \cap QS) # {} THEN @ \cup QS \cup sb.bQ ELSE @,
                        !.bB   = IF Rel(bn.bB) THEN @ \cup QS \cup sb.bB ELSE @]
     ELSE B[b]])

\* mechanisms that make a difference when a gate on L meets the overlapping bins (tests on the bins as they are
\* before anything is closed, as in the code)
MechGate(L, adm) ==
  LET O == Overlapping(L)
      T(b, X) == CanAcc(bins[b], L, X)
      If(c, m) == IF c THEN {m} ELSE {}
  IN If(\E b \in O : T(b, bins[b].blkd) # T(b, bins[b].bD), "trans")
     \cup If(\E b \in O : T(b, bins[b].blkd) # T(b, bins[b].bQ), "indirect")
     \cup If(\E b \in O : T(b, bins[b].blkd) # T(b, bins[b].bB), "barblock")
     \* the blocked set decides at all; a blocked qudit is accepted because it is active in the bin;
     \* a bin wider than the block size keeps absorbing; an operation comes back to a qudit the bin was closed on
     \cup If(\E b \in O : ~T(b, bins[b].blkd) /\ T(b, {}), "blocked")
     \cup If(\E b \in O : T(b, bins[b].blkd) /\ (L \cap bins[b].blkd \cap bins[b].act) # {}, "blocked-active")
     \cup If(\E b \in O : T(b, bins[b].blkd) /\ Cardinality(Range(bins[b].qs) \cup L) > bs, "wide-bin")
     \cup If(\E b \in O : ~ActiveOK(bins[b], L) /\ BlockedOK(bins[b], L, bins[b].blkd) /\ SizeOK(bins[b], L), "reentry")
     \* selection: several admissible bins; several overlapping ones.  (The code's preference for an admissible bin that
     \* already holds every qudit never matters: such a bin is the only overlapping one; checked with the asserts, AssertsHold.)
     \cup If(Len(adm) >= 2, "multi-adm")
     \cup If(Cardinality(O) >= 2, "multi-overlap")

\* NOTE on the shape of the actions: TLC re-evaluates an action-level LET definition at every reference (only inside an
\* expression are they evaluated once), so each step computes its whole result as ONE record (an expression) and the
\* action binds it with  \E R \in {...}.

\* the barrier-like operation number i on L (o = NewOp(TRUE, L)) with the overlapping bins visited in the order ord
BarrierResult(L, o, i, ord) ==
  LET P == Pos
      S == CloseSeq(Cur, ord, L, P, TRUE)
      \* "barrier bins fill the volume to the next gates": the next thing on q is whatever follows
      bb == [EmptyBin EXCEPT !.qs = o.loc, !.bar = TRUE, !.ops = <<i>>,
                              !.st = TLCEval([q \in Q |-> IF q \in L THEN P[q] ELSE -1]),
                              !.nx = TLCEval([q \in Q |-> IF q \in L THEN P[q] + 1 ELSE -1])]
      B1 == IF BarrierFix THEN BlockAgainst(S.bins, S.ab, 0, L, EmptyBin) ELSE S.bins
  IN [bins |-> Append(B1, bb), pend |-> Append(S.pend, Len(S.bins) + 1), ab |-> S.ab, nc |-> S.nc,
      mech |-> (IF \E b \in Overlapping(L) : ~(bins[b].act \subseteq L) THEN {"barrier-partial"} ELSE {})
               \cup (IF Cardinality(Overlapping(L)) >= 2 THEN {"multi-overlap"} ELSE {})]

\* Directed search (CONSTRAINT Directed, Target = "trans" or "indirect", Slack = MaxOps - 3; Slack >= MaxOps switches it
\* off).  Stages of a state:  3: the targeted part of the bookkeeping has decided a test;  2: some active bin's blocked set
\* differs from its shadow;  1: some active bin has blocked qudits at all.  One operation raises the stage by at most
\* one, so a state at stage s after n operations cannot reach stage 3 within MaxOps operations unless s + Slack >= n:
\* the constraint drops it.  DirOK is the same pruning applied before a successor is computed: when the state after this
\* operation has to be at stage k, the operation must be able to get it there.
Shadow(bn) == IF Target = "trans" THEN bn.bD ELSE bn.bQ
TargetDecides(L) == \E b \in Overlapping(L) : CanAcc(bins[b], L, bins[b].blkd) # CanAcc(bins[b], L, Shadow(bins[b]))
ActiveBins == {ab[q] : q \in Q} \ {0}
StageT == IF Target \in mech THEN 3
          ELSE IF \E b \in ActiveBins : bins[b].blkd # Shadow(bins[b]) THEN 2
          ELSE IF \E b \in ActiveBins : bins[b].blkd # {} THEN 1 ELSE 0
NeedStage(k) == Len(circ) + 1 - Slack >= k          \* the state after this operation has to be at stage >= k
StageNow == IF NeedStage(1) THEN StageT ELSE 0       \* only looked at when the search is directed
DirOK(L, gate, st) ==                                \* st = StageNow (computed once per state, not once per L)
  /\ NeedStage(3) => st >= 3 \/ (gate /\ TargetDecides(L))
  \* "trans": a new transitive part comes from a selected (so: overlapping and admissible) bin that has blocked qudits;
  \* "indirect": from a bin that has blocked qudits (stage 1, which the constraint already demands of this state)
  /\ NeedStage(2) => st >= 2 \/ (gate /\ (Target = "trans" =>
                                          \E b \in Overlapping(L) : bins[b].blkd # {} /\ CanAccommodate(bins[b], L)))
  \* a bin gets its first blocked qudits from an operation that touches one of its qudits
  /\ NeedStage(1) => st >= 1 \/ \E b \in ActiveBins : (Range(bins[b].qs) \cap L) # {}

StepBarrier ==
  /\ phase = "scan" /\ Len(circ) < MaxOps
  /\ \E st \in {StageNow} : \E L \in BarrierLocsNow :
       /\ DirOK(L, FALSE, st) /\ PrefixOK(TRUE, L) /\ InOrder(NewOp(TRUE, L))
       /\ \E ord \in PermSeqs(Overlapping(L)) :
            \E R \in {BarrierResult(L, NewOp(TRUE, L), Len(circ) + 1, ord)} :
               /\ bins' = R.bins /\ pend' = R.pend /\ ab' = R.ab /\ nc' = R.nc
               /\ mech' = mech \cup R.mech
       /\ circ' = Append(circ, NewOp(TRUE, L))
  /\ UNCHANGED <<phase, bs, dl, part, asserts, res, sid>>

\* the gate number i on L (o = NewOp(FALSE, L)) with the overlapping bins visited in the order ord
GateResult(L, o, i, ord) ==
  LET P == Pos
      adm == SelectSeq(ord, LAMBDA b : CanAccommodate(bins[b], L))
      inadm == SelectSeq(ord, LAMBDA b : ~CanAccommodate(bins[b], L))
      S1 == CloseSeq(Cur, inadm, L, P, FALSE)
      holders == {j \in 1..Len(adm) : L \subseteq Range(bins[adm[j]].qs)}
      sel == IF adm = <<>> THEN Len(S1.bins) + 1
             ELSE IF holders # {} THEN adm[MinS(holders)] ELSE adm[1]
      S2 == IF adm = <<>> THEN [S1 EXCEPT !.bins = Append(@, EmptyBin)]
            ELSE CloseSeq(S1, SelectSeq(adm, LAMBDA b : b # sel), L, P, FALSE)
      \* the two `assert`s of the main loop (and, in the result below, the remark on `holders` made in MechGate)
      okA == /\ (adm = <<>> => \A q \in L : S1.ab[q] = 0)
             /\ \A q \in L : S2.ab[q] \in {0, sel}
      B3 == [S2.bins EXCEPT ![sel] = AddToBin(@, i, o.loc, P)]
      ab3 == TLCEval([q \in Q |-> IF q \in L THEN sel ELSE S2.ab[q]])
      B4 == BlockAgainst(B3, ab3, sel, Range(B3[sel].qs), B3[sel])
  IN [bins |-> B4, ab |-> ab3, pend |-> S2.pend, nc |-> S2.nc, ok |-> okA /\ (holders # {} => 1 \in holders),
      mech |-> MechGate(L, adm)]

GateStep(wantNew) ==
  /\ phase = "scan" /\ Len(circ) < MaxOps
  /\ \E st \in {StageNow} : \E L \in GateLocsNow :
       /\ DirOK(L, TRUE, st) /\ PrefixOK(FALSE, L) /\ InOrder(NewOp(FALSE, L))
       /\ (\A b \in Overlapping(L) : ~CanAccommodate(bins[b], L)) = wantNew
       /\ \E ord \in PermSeqs(Overlapping(L)) :
            \E R \in {GateResult(L, NewOp(FALSE, L), Len(circ) + 1, ord)} :
               /\ bins' = R.bins /\ ab' = R.ab /\ pend' = R.pend /\ nc' = R.nc
               /\ asserts' = (asserts /\ R.ok)
               /\ phase' = IF R.nc >= Threshold THEN "midflush" ELSE "scan"
               /\ mech' = mech \cup R.mech
       /\ circ' = Append(circ, NewOp(FALSE, L))
  /\ UNCHANGED <<bs, dl, part, res, sid>>

StepGateNewBin == /\ phase = "scan"
                  /\ GateStep(TRUE)
StepGateJoinBin == /\ phase = "scan"
                   /\ GateStep(FALSE)
\* both at once (the split above only serves the per-action coverage numbers)
StepGate == /\ phase = "scan"
            /\ (GateStep(TRUE) \/ GateStep(FALSE))

-----------------------------------------------------------------------------
\* process_pending_bins, on a flush state F = [bins, pend, dl, part]

Rear(p) == {i \in 1..Len(p) : \A j \in i + 1..Len(p) : Range(p[j].loc) \cap Range(p[i].loc) = {}}

\* "merge previously placed blocks if possible": a block in the rear whose qudits are a subset of the new
\* block's is pulled in front of it; one whose qudits are a superset swallows it.  Barriers are skipped.
RECURSIVE Merge(_, _, _, _)
Merge(p, loc, ops, mg) ==
  LET cands == {i \in Rear(p) : p[i].blk /\ (Range(p[i].loc) \subseteq Range(loc) \/ Range(loc) \subseteq Range(p[i].loc))}
  IN IF cands = {} THEN [part |-> p, loc |-> loc, ops |-> ops, mg |-> mg]
     ELSE LET i == MinS(cands)
              sub == Range(p[i].loc) \subseteq Range(loc)
          IN Merge(RemoveAt(p, i),
                   IF sub THEN loc ELSE p[i].loc,
                   p[i].ops \o ops,
                   mg \cup {IF sub THEN "merge-sub" ELSE "merge-super"})

RECURSIVE FlushAll(_)
FlushAll(F) ==
  LET Ready(b) == \A j \in 1..Len(F.bins[b].qs) : LET q == F.bins[b].qs[j] IN F.dl[q] = F.bins[b].st[q]
      ready == {j \in 1..Len(F.pend) : Ready(F.pend[j])}
  IN IF ready = {} THEN F
     ELSE LET j == MinS(ready)
              bn == F.bins[F.pend[j]]
              m == IF bn.bar THEN [part |-> F.part, loc |-> bn.qs, ops |-> bn.ops, mg |-> {}]
                   ELSE Merge(F.part, SortedSeq(Range(bn.qs)), bn.ops, {})
              np == Append(m.part, [blk |-> ~bn.bar, loc |-> m.loc, ops |-> m.ops])
          IN FlushAll([bins |-> F.bins, pend |-> RemoveAt(F.pend, j), part |-> np, mg |-> F.mg \cup m.mg,
                       dl |-> TLCEval([q \in Q |-> IF q \in Range(bn.qs) THEN bn.nx[q] ELSE F.dl[q]])])

\* num_closed reached the threshold after a gate: process_pending_bins(); num_closed = 0
MidFlush ==
  /\ phase = "midflush"
  /\ \E F \in {FlushAll([bins |-> bins, pend |-> pend, dl |-> dl, part |-> part, mg |-> {}])} :
        /\ pend' = F.pend /\ dl' = F.dl /\ part' = F.part
        /\ mech' = mech \cup F.mg \cup (IF F.part # part THEN {"midflush"} ELSE {})
  /\ phase' = "scan" /\ nc' = 0
  /\ UNCHANGED <<bs, circ, bins, ab, asserts, res, sid>>

\* after the loop: close every bin that is still active, in the order of active_bins (ends = num_cycles - 1:
\* nothing follows on these qudits)
RECURSIVE CloseRemaining(_, _)
CloseRemaining(S, q) ==
  IF q = NQ THEN S
  ELSE IF S.ab[q] = 0 THEN CloseRemaining(S, q + 1)
  ELSE CloseRemaining(CloseQudits(S, S.ab[q], Range(S.bins[S.ab[q]].qs), Pos), q + 1)

\* the model's circuit and an output as a PartitionRules case
CaseRec(p) ==
  [nq |-> NQ, bs |-> bs,
   inseq |-> TLCEval([q \in 1..NQ |-> SortedSeq(OpsOn(q - 1))]),
   oploc |-> TLCEval([i \in 1..Len(circ) |-> circ[i].loc]),
   kind  |-> TLCEval([i \in 1..Len(circ) |-> IF circ[i].bar THEN "b" ELSE "g"]),
   par   |-> TLCEval([i \in 1..Len(circ) |-> <<>>]),
   out   |-> TLCEval([j \in 1..Len(p) |->
                [blk |-> p[j].blk, loc |-> p[j].loc,
                 ops |-> TLCEval([m \in 1..Len(p[j].ops) |->
                            [id |-> p[j].ops[m], loc |-> circ[p[j].ops[m]].loc, par |-> <<>>]])]]),
   unf |-> <<>>, inleaf |-> <<>>, raised |-> ""]

CircOut == [i \in 1..Len(circ) |-> <<IF circ[i].bar THEN 1 ELSE 0, circ[i].loc>>]
PartOut(p) == [j \in 1..Len(p) |-> <<IF p[j].blk THEN 1 ELSE 0, p[j].loc, p[j].ops>>]
Checksum == LET RECURSIVE Sum(_)
                Sum(i) == IF i = 0 THEN 0 ELSE Sum(i - 1) + i * (circ[i].loc[1] + 3 * Len(circ[i].loc) + (IF circ[i].bar THEN 7 ELSE 0))
            IN Sum(Len(circ))
Emit == IF EmitMod > 0 THEN Checksum % EmitMod = 0 ELSE FALSE

\* close remaining active bins; process remaining bins; raise if some are left; become the partitioned circuit.
\* The run ends in a sink state that keeps only the verdict.
FinalResult ==
  LET S == CloseRemaining(Cur, 0)
      F == FlushAll([bins |-> S.bins, pend |-> S.pend, dl |-> dl, part |-> part, mg |-> {}])
      c == TLCEval(CaseRec(F.part))
  IN [v |-> IF F.pend # <<>> THEN "pass-raised" ELSE Replay(c, Start(c), 1),
      part |-> F.part, npend |-> Len(F.pend), fm |-> mech \cup F.mg]

Finalize ==
  /\ phase = "scan" /\ Len(circ) >= 1 /\ Len(circ) >= Len(Prefix) /\ Len(circ) >= MinFinal
  /\ (PrefixMode = "script" => Len(circ) = Len(Scripts[sid].ops))
  /\ \E R \in {FinalResult} :
        /\ res' = R.v
        /\ IF R.v # "accepted" /\ PrefixMode # "script" THEN PrintT(<<"L2VERDICT", bs, NQ, CircOut, R.v>>) ELSE TRUE
        /\ IF Emit THEN PrintT(<<"QP", bs, NQ, CircOut, PartOut(R.part), R.npend>>) ELSE TRUE
        /\ IF (R.fm \cap EmitMechs) # {} /\ PrefixMode # "script"
           THEN PrintT(<<"QPM", bs, NQ, CircOut, MechSeq(R.fm)>>) ELSE TRUE
        /\ IF PrefixMode = "script"
           THEN PrintT(<<"QPS", sid, bs, NQ, PartOut(R.part), R.npend, MechSeq(R.fm), R.v>>) ELSE TRUE
  /\ phase' = "done"
  /\ circ' = <<>> /\ bins' = <<>> /\ pend' = <<>> /\ part' = <<>> /\ nc' = 0
  /\ ab' = [q \in Q |-> 0] /\ dl' = [q \in Q |-> 0] /\ mech' = {}
  /\ UNCHANGED <<bs, asserts, sid>>

-----------------------------------------------------------------------------
Init ==
  /\ phase = "scan" /\ circ = <<>>
  /\ IF PrefixMode = "script" THEN sid \in 1..Len(Scripts) /\ bs = Scripts[sid].bs
                               ELSE sid = 0 /\ bs \in BlockSizes
  /\ bins = <<>> /\ ab = [q \in Q |-> 0] /\ pend = <<>> /\ dl = [q \in Q |-> 0] /\ nc = 0
  /\ part = <<>> /\ asserts = TRUE /\ res = "none" /\ mech = {}

Next == StepBarrier \/ StepGateNewBin \/ StepGateJoinBin \/ MidFlush \/ Finalize

Spec == Init /\ [][Next]_vars

-----------------------------------------------------------------------------
\* invariants

\* the two `assert`s of the main loop never fail
AssertsHold == asserts
\* every pending bin is fully closed; every active bin is registered on exactly its active qudits
Shape ==
  /\ \A i \in 1..Len(pend) : bins[pend[i]].act = {}
  /\ \A q \in Q : ab[q] # 0 => q \in bins[ab[q]].act
  /\ \A b \in 1..Len(bins) : \A q \in bins[b].act : ab[q] = b
\* L2 |= L1: no pending bin is left ("Unable to process all pending bins") and the output satisfies the property.
\* An invariant of the repaired algorithm (BarrierFix = TRUE); for the code as it is the verdicts are printed.
ResOK == res \in {"none", "accepted"}

\* State constraint of the directed search (sound pruning: see DirOK)
Directed == phase = "done" \/ StageT + Slack >= Len(circ)
=============================================================================
