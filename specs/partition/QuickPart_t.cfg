\* test
SPECIFICATION Spec
CONSTANTS
  NQ = 3
  MaxOps = 4
  BlockSizes = {2, 3}
  GateArities = {1, 2, 3}
  BarrierMode = "any"
  Threshold = 5
  BarrierFix = FALSE
  EmitMod = 0
INVARIANTS AssertsHold Shape 
CHECK_DEADLOCK FALSE
