--------------------------- MODULE PartitionRules ---------------------------
(* C08 (L1): the acceptance condition for the OUTPUT of a partitioning pass, as pure operators.

   Written from the statement only: "each partitioning pass returns a circuit whose blocks each span at
   most the block size (or the width of a single wider gate), that contains every original operation
   exactly once with unchanged parameters, and whose unfolding has the same operation sequence on every
   qudit as the input.  Barriers, measurements and resets are neither absorbed into blocks nor reordered
   across them."

   A case record C carries
     nq     number of qudits                       bs     configured block size
     inseq  per qudit (1..nq): the ids of the input's operations on that qudit, in program order
     oploc  per id: the location of the input operation (sequence of 0-based qudits)
     kind   per id: "g" gate | "b" barrier | "m" measurement | "r" reset
     par    per id: the parameters, as integers (micro-units)
     out    the output circuit in simulation order; each item is
              [blk |-> is it a block made by the pass, loc |-> its location,
               ops |-> its operations in inner simulation order, each [id, loc (outer numbering), par]]
            (a bare operation is an item with blk = FALSE and exactly one op)
     unf    per qudit: <<id, parameter checksum>> read from the output after the implementation's own unfold_all()
     inleaf the same reading of the input (leaf level: an already-blocked input operation is opened too)
     raised "" or the exception text when the pass raised instead of returning

   The replay keeps one cursor per qudit into inseq.  An item is acceptable iff on every qudit it touches
   its operations are exactly the next ones at the cursor.  All cursors at the end = every operation once,
   same order on every qudit, nothing moved across a barrier (a barrier is an operation on its qudits).

   Weaker readings taken where the statement leaves room (so that no correct partitioner is flagged):
   * width: a block may be as wide as max(block size, arity of the widest operation inside it) -- the
     statement's "(or the width of a single wider gate)"; a bin opened by a 3-qudit gate may keep absorbing
     gates inside those three qudits.
   * a bare operation has no width limit; an input operation that is itself a CircuitGate is one operation.
   * nothing is said about which operations share a block, nor about the order of independent items. *)
EXTENDS Naturals, Integers, Sequences, FiniteSets, TLC

Range(s) == {s[i] : i \in 1..Len(s)}
BarrierLike(k) == k \in {"b", "m", "r"}

\* ids of the operations of item o that touch (0-based) qudit q, in inner order
OnQudit(o, q) ==
  LET idx == SelectSeq([i \in 1..Len(o.ops) |-> i], LAMBDA i : q \in Range(o.ops[i].loc))
  IN [j \in 1..Len(idx) |-> o.ops[idx[j]].id]

ItemVerdict(C, cur, o) ==
  LET n == Len(o.loc)
      I == 1..Len(o.ops)
      Known(i) == o.ops[i].id \in 1..Len(C.oploc)
  IN IF \E j \in 1..n : o.loc[j] \notin 0..C.nq - 1 THEN "malformed-observation"
     ELSE IF \E i \in I : ~(Range(o.ops[i].loc) \subseteq Range(o.loc)) THEN "malformed-observation"
     ELSE IF ~o.blk /\ Len(o.ops) # 1 THEN "malformed-observation"
     ELSE IF o.blk /\ Len(o.ops) = 0 THEN "empty-block"
     \* an operation that is not one of the input's: the one expected at the cursor is missing
     ELSE IF \E i \in I : ~Known(i) THEN "order-or-missing"
     ELSE IF \E i \in I : ~(Range(C.oploc[o.ops[i].id]) \subseteq Range(o.loc))
          THEN (IF o.blk THEN "op-split-across-blocks" ELSE "location-changed")
     ELSE IF \E i \in I : o.ops[i].loc # C.oploc[o.ops[i].id] THEN "location-changed"
     ELSE IF \E j \in 1..n :
               LET q == o.loc[j] + 1
                   s == OnQudit(o, o.loc[j])
               IN \/ cur[q] + Len(s) > Len(C.inseq[q])
                  \/ SubSeq(C.inseq[q], cur[q] + 1, cur[q] + Len(s)) # s
          THEN "order-or-missing"
     ELSE IF o.blk /\ \E i \in I : BarrierLike(C.kind[o.ops[i].id]) THEN "barrier-absorbed"
     ELSE IF o.blk /\ n > C.bs /\ ~(\E i \in I : Len(C.oploc[o.ops[i].id]) >= n) THEN "block-too-wide"
     ELSE IF \E i \in I : o.ops[i].par # C.par[o.ops[i].id] THEN "params-changed"
     ELSE "ok"

Advance(C, cur, o) ==
  TLCEval([q \in 1..C.nq |-> cur[q] + Cardinality({i \in 1..Len(o.ops) : (q - 1) \in Range(o.ops[i].loc)})])

FinalVerdict(C, cur) ==
  IF C.raised # "" THEN "pass-raised"          \* the pass failed on an input inside its documented domain
  ELSE IF \E q \in 1..C.nq : cur[q] # Len(C.inseq[q]) THEN "ops-lost"
  ELSE IF C.unf # C.inleaf THEN "unfolded-sequence-differs"
  ELSE "accepted"

Start(C) == TLCEval([q \in 1..C.nq |-> 0])

\* the whole replay as one function (used as the postcondition of the L2 model QuickPart)
RECURSIVE Replay(_, _, _)
Replay(C, cur, l) ==
  IF l > Len(C.out) THEN FinalVerdict(C, cur)
  ELSE LET v == ItemVerdict(C, cur, C.out[l])
       IN IF v = "ok" THEN Replay(C, Advance(C, cur, C.out[l]), l + 1) ELSE v
=============================================================================
