---------------------------- MODULE PartitionAbs ----------------------------
(* C08 (L1), trace form: replays recorded outputs of the real partitioning passes against the input's
   per-qudit operation sequences.  One behaviour per case (tid); every step judges one output item with
   PartitionRules!ItemVerdict; the first failing clause is printed as <<"VERDICT", tid, l, clause>> and the
   run goes on with the other cases (total verdict function, never stops at the first bad trace). *)
EXTENDS PartitionRules, TLC, Json, IOUtils

Cases == JsonDeserialize(IOEnv.TRACE_FILE)
VARIABLES tid, l, cur, bad
vars == <<tid, l, cur, bad>>
C == Cases[tid]

Init == /\ tid \in 1..Len(Cases) /\ l = 1 /\ bad = "none"
        /\ cur = Start(Cases[tid])

Step ==
  /\ bad = "none" /\ l <= Len(C.out)
  /\ LET o == C.out[l]
         v == ItemVerdict(C, cur, o)
     IN IF v = "ok"
        THEN /\ cur' = Advance(C, cur, o) /\ bad' = bad /\ l' = l + 1
        ELSE /\ bad' = v /\ UNCHANGED <<cur, l>> /\ PrintT(<<"VERDICT", tid, l, v>>)
  /\ tid' = tid

Finish ==
  /\ bad = "none" /\ l = Len(C.out) + 1
  /\ LET v == FinalVerdict(C, cur)
     IN /\ bad' = v
        /\ IF v = "accepted" THEN TRUE ELSE PrintT(<<"VERDICT", tid, l, v>>)
  /\ UNCHANGED <<tid, l, cur>>

Next == Step \/ Finish
Spec == Init /\ [][Next]_vars
=============================================================================
