--------------------------- MODULE ShutdownTrace ---------------------------
(* Conformance of recorded crash runs of the real runtime to Shutdown.tla (L2, C14).

   A case is the order in which runtime processes ended in one run: [nm, nw, ev] with ev a sequence of
   [k |-> "crash" | "kill" | "exit", n |-> node number].  "crash"/"kill" are faults (the injected process death, the
   client killing an attached server that did not stop in time); every "exit" must be a step Shutdown.tla allows in
   the state reached so far: a boss stops only after it lost an employee or was told to, a worker only after it was
   told to or lost its boss.  The spec state is a deterministic function of the prefix, so this is a total verdict. *)
EXTENDS Naturals, Sequences, FiniteSets, TLC, Json, IOUtils
Cases == JsonDeserialize(IOEnv.TRACE_FILE)
VARIABLES tid, l, up, told, bad
vars == <<tid, l, up, told, bad>>
C == Cases[tid]
Srv == 0
Managers == 1..C.nm
Bosses == {Srv} \cup Managers
WorkersOf(b) == IF C.nm = 0 THEN (IF b = Srv THEN {100 + i : i \in 1..C.nw} ELSE {})
                ELSE (IF b = Srv THEN {} ELSE {100 * (b + 1) + i : i \in 1..C.nw})
Workers == UNION {WorkersOf(b) : b \in Bosses}
EmployeesOf(b) == IF b = Srv /\ C.nm > 0 THEN Managers ELSE WorkersOf(b)
BossOf(e) == IF e \in Managers THEN Srv ELSE (e \div 100) - 1
Nodes == Bosses \cup Workers
NodesOf(c) == ({0} \cup (1..c.nm)) \cup (IF c.nm = 0 THEN {100 + i : i \in 1..c.nw} ELSE UNION {{100 * (b + 1) + i : i \in 1..c.nw} : b \in 1..c.nm})

Init == /\ tid \in 1..Len(Cases) /\ l = 1 /\ bad = "none"
        /\ up = [n \in NodesOf(Cases[tid]) |-> TRUE] /\ told = [n \in NodesOf(Cases[tid]) |-> FALSE]
E == C.ev[l]
Verdict ==
  IF E.n \notin Nodes THEN "unknown-node"
  ELSE IF E.k \in {"crash", "kill"} THEN "ok"
  ELSE IF ~up[E.n] THEN "exit-of-dead-process"
  ELSE IF E.n \in Bosses THEN
       (IF told[E.n] \/ (\E e \in EmployeesOf(E.n) : ~up[e]) \/ E.n = Srv THEN "ok" ELSE "boss-stopped-without-cause")
  ELSE (IF told[E.n] \/ ~up[BossOf(E.n)] THEN "ok" ELSE "worker-stopped-without-cause")
\* (the server may also stop because its client left - attached mode - which Shutdown.tla does not model: accepted)
Step ==
  /\ bad = "none" /\ l <= Len(C.ev)
  /\ LET v == Verdict IN
     IF v = "ok"
     THEN /\ l' = l + 1 /\ bad' = bad
          /\ up' = [up EXCEPT ![E.n] = FALSE]
          /\ told' = IF E.k = "exit" /\ E.n \in Bosses
                     THEN [n \in Nodes |-> IF n \in EmployeesOf(E.n) /\ up[n] THEN TRUE
                                           ELSE IF E.n # Srv /\ n = Srv /\ up[Srv] THEN TRUE ELSE told[n]]
                     ELSE told
     ELSE /\ bad' = v /\ PrintT(<<"VERDICT", tid, l, v>>) /\ UNCHANGED <<l, up, told>>
  /\ tid' = tid
Spec == Init /\ [][Step]_vars
=============================================================================
