SPECIFICATION Spec
CONSTANTS NM = 0
 NW = 3
 NCL = 2
 MaxCrash = 2
INVARIANT ClientsClosedOnlyWithServer
INVARIANT NoSpontaneousStop
PROPERTY Released
CHECK_DEADLOCK FALSE
