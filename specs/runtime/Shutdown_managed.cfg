SPECIFICATION Spec
CONSTANTS NM = 2
 NW = 2
 NCL = 2
 MaxCrash = 2
INVARIANT ClientsClosedOnlyWithServer
INVARIANT NoSpontaneousStop
PROPERTY Released
CHECK_DEADLOCK FALSE
