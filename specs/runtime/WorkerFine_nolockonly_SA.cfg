SPECIFICATION Spec
CONSTANTS
 Prog <- P_SA
 Place <- PlaceAny
 RootFn = "root"
 EnvCancelRoot = FALSE
 MailboxLocked = FALSE
 RegisterIfNotReady = TRUE
 DelayBeforeStart = TRUE
 CancelInPlace = TRUE
 ForgetDiscarded = TRUE
 TolerantCompletion = TRUE
 DropLateBoxes = FALSE
 Record = FALSE
INVARIANT NoHang
CHECK_DEADLOCK FALSE
