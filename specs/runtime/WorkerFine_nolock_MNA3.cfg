SPECIFICATION Spec
CONSTANTS
 Prog <- P_MNA3
 Place <- PlaceAny
 RootFn = "root"
 EnvCancelRoot = FALSE
 MailboxLocked = FALSE
 RegisterIfNotReady = FALSE
 DelayBeforeStart = TRUE
 CancelInPlace = TRUE
 ForgetDiscarded = TRUE
 TolerantCompletion = TRUE
 DropLateBoxes = FALSE
 Record = FALSE
INVARIANT NoErr
CHECK_DEADLOCK FALSE
