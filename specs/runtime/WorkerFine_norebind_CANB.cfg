SPECIFICATION Spec
CONSTANTS
 Prog <- P_CANB
 Place <- PlaceLocal
 RootFn = "root"
 EnvCancelRoot = FALSE
 MailboxLocked = TRUE
 RegisterIfNotReady = TRUE
 DelayBeforeStart = TRUE
 CancelInPlace = FALSE
 ForgetDiscarded = TRUE
 TolerantCompletion = TRUE
 DropLateBoxes = FALSE
 Record = FALSE
INVARIANT RunAtMostOnce
CHECK_DEADLOCK FALSE
