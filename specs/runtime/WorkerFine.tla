----------------------------- MODULE WorkerFine -----------------------------
(* L2 - implementation-shaped specification of ONE BQSKit runtime worker (bqskit/runtime/worker.py) at the
   granularity of its shared-variable accesses.  The worker's two threads are separate processes:

     main      Worker._loop -> _try_step_next_ready_task -> _get_next_ready_task (delayed tasks, read_receipt_mutex,
               WAITING), _get_desired_result, RuntimeTask.step (the task body: submit / map / cancel / next / await /
               return), _process_await, _process_task_completion (-> _handle_result for a child that ran here,
               Worker.cancel of unconsumed futures)
     inc       Worker.recv_incoming -> SUBMIT / SUBMIT_BATCH handling, _handle_result, _handle_cancel, SHUTDOWN

   sharing _tasks, _delayed_tasks, _ready_task_ids, _mailboxes (expected / num_results / dest_addr / fresh_results),
   _cancelled_task_ids, most_recent_read_submit and the two locks (read_receipt_mutex, mailbox_mutex) exactly as the
   code takes them.  A program counter value of a thread is the STATEMENT IT IS ABOUT TO EXECUTE (a content anchor
   in worker.py, see harness/rtfine.py ANCHORS); one action = the code between two anchors.  Statements between two
   anchors are merged only where no statement of the other thread can observe the difference (argued next to each
   action), so TLC explores every interleaving a line-level execution of the two threads can produce.

   The environment (boss + other workers + client) is abstract.  It owns what the worker sent up (pool = submitted
   tasks not yet assigned, echo = CANCELs to be broadcast back), runs tasks remotely (remote) and non-
   deterministically delivers SUBMIT / SUBMIT_BATCH (any subset of a submitted group that Place allows to run here, the
   others run remotely), RESULTs of remote children, CANCEL echoes and - if EnvCancelRoot - the client's cancellation
   of the whole compilation.  Message delivery and the incoming thread's recv are one action (the buffering of the
   connection is not observable by the worker).

   Fix switches (TRUE = the current code; FALSE re-creates a historical race, see the WorkerFine_no*.cfg files):
     MailboxLocked       890f7e8  mailbox_mutex around _process_await / _handle_result / _get_desired_result
     RegisterIfNotReady  890f7e8  _process_await registers only when the box is not ready; _handle_result clears the
                                  registration before queueing the wake-up (FALSE: register first, put then clear)
     DelayBeforeStart    c1ead5d  SUBMIT_BATCH delays the rest of the batch before starting its first task
     CancelInPlace       c553de0  _handle_cancel removes delayed tasks from the list itself (FALSE: rebinds a filtered copy)
     ForgetDiscarded     65b9d36  a cancelled task discarded from the ready queue is also forgotten in _tasks
     TolerantCompletion  3fdf1bb  the loop over a finished task's mailboxes skips one that a cancel dropped meanwhile (FALSE: KeyError
                                  out of _process_task_completion, past every handler, ends the worker loop)
     DropLateBoxes       (repair proposed by this work, /tmp/fixes/C12-cancel-while-executing.diff; FALSE = the code without it)
                                  a task that was cancelled while it was executing drops the mailboxes it owns as soon as its
                                  step is over (Worker._drop_mailboxes_if_cancelled); _handle_cancel forgets a task BEFORE it
                                  drops the task's mailboxes.  The harness picks the value that matches the tree under test.

   With Record = TRUE every action appends its name, thread and the projection of the post-state to hist; complete
   behaviours are printed by Dump and replayed into the real Worker class (harness/rtfine.py). *)
EXTENDS Naturals, Integers, Sequences, FiniteSets, TLC, Json

CONSTANTS Prog,               \* function name -> sequence of instructions (same language as Runtime.tla)
          RootFn,             \* the compilation's root task runs Prog[RootFn]
          Place,              \* function name -> "L" (runs on this worker) | "R" (runs elsewhere; must be a leaf) | "LR"
          EnvCancelRoot,      \* BOOLEAN: the client may cancel the compilation at any moment
          MailboxLocked, RegisterIfNotReady, DelayBeforeStart, CancelInPlace, ForgetDiscarded, TolerantCompletion, DropLateBoxes,
          Record

Wid == 0
NoBox == -1
None == <<>>
RootAddr == <<-1, 0, 0>>
Threads == {"main", "inc"}
Kinds == {"WAITING", "SUBMIT", "SUBMIT_BATCH", "RESULT", "UPDATE", "CANCEL", "ERROR"}

VARIABLES
  tasks,      \* Worker._tasks: sequence of addresses in insertion order (a dict keeps it; _handle_cancel iterates it)
  tobj,       \* the RuntimeTask objects alive on this worker: addr -> [fn, crumbs, ipc, env, desired, won, owned, closed]
  delayed,    \* Worker._delayed_tasks: sequence of task descriptors [fn, addr, crumbs]
  readyq,     \* Worker._ready_task_ids: sequence of <<addr, "start" | "wake">> (the tag is history)
  cancelled,  \* Worker._cancelled_task_ids
  mboxes,     \* keys of Worker._mailboxes
  box,        \* id -> [expected, num, dest, fresh, late]     (id \in mboxes; late is history: created by a task after it was cancelled)
  ctr,        \* Worker._mailbox_counter
  receipt,    \* Worker.most_recent_read_submit
  rrHolder,   \* read_receipt_mutex: "none" | "main" | "inc"
  mbHolder,   \* mailbox_mutex
  m,          \* main thread: [pc, addr, found, task, del, exc, list, ready]
  i,          \* incoming thread: [pc, msg, list, dl]
  hr,         \* activation record of _handle_result per thread: [id, slot, ret]
  pool, remote, echo, cseen, rootc, clientRes, alive,     \* environment
  h,          \* history: [runs, errs, sent, wakes, awaits, lastEnq, mustDiscard, orphanWaiter]
  hist        \* recorded behaviour (only when Record)
vars == <<tasks, tobj, delayed, readyq, cancelled, mboxes, box, ctr, receipt, rrHolder, mbHolder, m, i, hr,
          pool, remote, echo, cseen, rootc, clientRes, alive, h, hist>>
shared == <<tasks, tobj, delayed, readyq, cancelled, mboxes, box, ctr, receipt, rrHolder, mbHolder>>
envv == <<pool, remote, echo, cseen, rootc, clientRes, alive>>

\* ------------------------------------------------------------------ helpers
Put(f, k, v) == [x \in DOMAIN f \cup {k} |-> IF x = k THEN v ELSE f[x]]
Del(f, k) == [x \in DOMAIN f \ {k} |-> f[x]]
DelAll(f, S) == [x \in DOMAIN f \ S |-> f[x]]
Bump(f, k) == IF k \in DOMAIN f THEN [f EXCEPT ![k] = @ + 1] ELSE Put(f, k, 1)
Range(s) == {s[k] : k \in 1..Len(s)}
Without(s, x) == SelectSeq(s, LAMBDA y : y # x)
RECURSIVE RemoveFirst(_, _)
RemoveFirst(s, x) == IF s = <<>> THEN <<>> ELSE IF Head(s) = x THEN Tail(s) ELSE <<Head(s)>> \o RemoveFirst(Tail(s), x)
RECURSIVE SortedSeq(_)
SortedSeq(S) == IF S = {} THEN <<>> ELSE LET x == CHOOSE y \in S : \A z \in S : y <= z IN <<x>> \o SortedSeq(S \ {x})

Desc(fn, addr, crumbs) == [fn |-> fn, addr |-> addr, crumbs |-> crumbs]
NoDesc == Desc("", None, <<>>)
NoMsg == [t |-> "", addr |-> None, ts |-> <<>>]
NewObj(d) == [fn |-> d.fn, crumbs |-> d.crumbs, ipc |-> 1, env |-> <<>>, desired |-> NoBox, won |-> FALSE, owned |-> {}, closed |-> FALSE]
NewBox(n, late) == [expected |-> n, num |-> 0, dest |-> None, fresh |-> {}, late |-> late]
BoxReady(b) == b.num >= b.expected /\ b.num # 0                       \* WorkerMailbox.ready
Descends(a, crumbs, x) == a = x \/ x \in Range(crumbs)                 \* RuntimeTask.is_descendant_of
InTasks(a) == a \in Range(tasks)
QAddrs == {readyq[k][1] : k \in 1..Len(readyq)}
LocalOK(d) == Place[d.fn] \in {"L", "LR"}
RemoteOK(d) == Place[d.fn] \in {"R", "LR"}
IdleHr == [id |-> NoBox, slot |-> 0, ret |-> ""]
IdleM == [pc |-> "top", addr |-> None, found |-> FALSE, task |-> None, del |-> NoDesc, exc |-> "", list |-> <<>>, ready |-> FALSE]
IdleI == [pc |-> "recv", msg |-> NoMsg, list |-> <<>>, dl |-> <<>>]
\* where the main thread is once a body has yielded a future: at the lock of _process_await, or (repaired code) at the test
\* whether the task was cancelled while it ran
AwaitPc == IF DropLateBoxes THEN "stepCheck" ELSE "paLock"
\* the statement a task body reaches next (its next runtime call)
InsPc(o) == LET ins == Prog[o.fn][o.ipc] IN
            CASE ins[1] = "submit" -> "submit" [] ins[1] = "map" -> "map" [] ins[1] = "cancel" -> "cancel"
              [] ins[1] = "next" -> "next" [] ins[1] = "await" -> AwaitPc [] ins[1] = "ret" -> "complCheck"
\* the coroutine of the active task is executing (coro.close() from the other thread raises ValueError, which is ignored)
RunningPcs == {"submit", "map", "cancel", "next"}
Release(th, holder) == IF holder = th THEN "none" ELSE holder
Sent(k, n) == [h.sent EXCEPT ![k] = @ + n]

Init ==
  /\ tasks = <<>> /\ tobj = <<>> /\ delayed = <<>> /\ readyq = <<>> /\ cancelled = {} /\ mboxes = {} /\ box = <<>>
  /\ ctr = 0 /\ receipt = None /\ rrHolder = "none" /\ mbHolder = "none"
  /\ m = IdleM /\ i = IdleI /\ hr = [th \in Threads |-> IdleHr]
  /\ pool = {[k |-> "B", ts |-> <<Desc(RootFn, RootAddr, <<>>)>>]}
  /\ remote = {} /\ echo = {} /\ cseen = {} /\ rootc = FALSE /\ clientRes = 0 /\ alive = TRUE
  /\ h = [runs |-> <<>>, errs |-> {}, sent |-> [k \in Kinds |-> 0], wakes |-> <<>>, awaits |-> <<>>, lastEnq |-> None,
          mustDiscard |-> FALSE, orphanWaiter |-> FALSE]
  /\ hist = <<>>

\* ------------------------------------------------------------------ recording (projection of the POST-state)
Proj == [mpc |-> m'.pc, ipc |-> i'.pc,
         rq |-> [k \in 1..Len(readyq') |-> readyq'[k][1]],
         dl |-> [k \in 1..Len(delayed') |-> delayed'[k].addr],
         tasks |-> [k \in 1..Len(tasks') |-> LET o == tobj'[tasks'[k]] IN
                      [a |-> tasks'[k], desired |-> o.desired, won |-> o.won, owned |-> SortedSeq(o.owned)]],
         boxes |-> [k \in 1..Cardinality(mboxes') |-> LET id == SortedSeq(mboxes')[k] b == box'[id] IN
                      [id |-> id, expected |-> b.expected, num |-> b.num, dest |-> b.dest, fresh |-> SortedSeq(b.fresh)]],
         cancelled |-> cancelled', receipt |-> receipt', ctr |-> ctr', rr |-> rrHolder', mb |-> mbHolder',
         sent |-> h'.sent, msg |-> i'.msg]
Act(name, th) == hist' = IF Record THEN Append(hist, [a |-> name, th |-> th, p |-> Proj]) ELSE hist

\* leaving the task that main holds: the object is garbage once neither _tasks nor the snapshot a running
\* _handle_cancel iterates over references it
Reap(tb, tk, a) == IF a # None /\ a \in DOMAIN tb /\ a \notin Range(tk) /\ a \notin Range(i.list) THEN Del(tb, a) ELSE tb

\* ================================================================== main thread
\* `if self._ready_task_ids.empty() and len(self._delayed_tasks) > 0:`  (one line: one atomic read of both)
M_top ==
  /\ alive /\ m.pc = "top"
  /\ m' = [m EXCEPT !.pc = IF readyq = <<>> /\ delayed # <<>> THEN "popDelayed" ELSE "lockRR"]
  /\ UNCHANGED <<shared, i, hr, envv, h>> /\ Act("M_top", "main")

\* `delayed_task = self._delayed_tasks.pop()`  (IndexError -> continue: emptied by a cancel meanwhile)
M_popDelayed ==
  /\ alive /\ m.pc = "popDelayed"
  /\ IF delayed = <<>> THEN m' = [m EXCEPT !.pc = "top"] /\ delayed' = delayed
     ELSE /\ m' = [m EXCEPT !.pc = "addDelayed", !.del = delayed[Len(delayed)]]
          /\ delayed' = SubSeq(delayed, 1, Len(delayed) - 1)
  /\ UNCHANGED <<tasks, tobj, readyq, cancelled, mboxes, box, ctr, receipt, rrHolder, mbHolder, i, hr, envv, h>>
  /\ Act("M_popDelayed", "main")

\* _add_task, first half: `self._tasks[task.return_address] = task; task.start()` - from here _handle_cancel sees it
M_addDelayed ==
  /\ alive /\ m.pc = "addDelayed"
  /\ tasks' = IF InTasks(m.del.addr) THEN tasks ELSE Append(tasks, m.del.addr)
  /\ tobj' = Put(tobj, m.del.addr, NewObj(m.del))
  /\ m' = [m EXCEPT !.pc = "putDelayed"]
  /\ UNCHANGED <<delayed, readyq, cancelled, mboxes, box, ctr, receipt, rrHolder, mbHolder, i, hr, envv, h>>
  /\ Act("M_addDelayed", "main")

\* _add_task, second half: `self._ready_task_ids.put(task.return_address)`; `continue`
M_putDelayed ==
  /\ alive /\ m.pc = "putDelayed"
  /\ readyq' = Append(readyq, <<m.del.addr, "start">>)
  /\ m' = IdleM
  /\ UNCHANGED <<tasks, tobj, delayed, cancelled, mboxes, box, ctr, receipt, rrHolder, mbHolder, i, hr, envv, h>>
  /\ Act("M_putDelayed", "main")

\* `self.read_receipt_mutex.acquire()` in _get_next_ready_task
M_lockRR ==
  /\ alive /\ m.pc = "lockRR" /\ rrHolder = "none"
  /\ rrHolder' = "main" /\ m' = [m EXCEPT !.pc = "getNowait"]
  /\ UNCHANGED <<tasks, tobj, delayed, readyq, cancelled, mboxes, box, ctr, receipt, mbHolder, i, hr, envv, h>>
  /\ Act("M_lockRR", "main")

CancelledAtPop(a) == a \in cancelled \/ (a \in DOMAIN tobj /\ InTasks(a) /\ Range(tobj[a].crumbs) \cap cancelled # {})
Popped == /\ readyq' = Tail(readyq)
          /\ m' = [m EXCEPT !.pc = "lookup", !.addr = Head(readyq)[1]]
          /\ h' = [h EXCEPT !.mustDiscard = CancelledAtPop(Head(readyq)[1])]

\* `addr = self._ready_task_ids.get_nowait()`; success: `self.read_receipt_mutex.release()`; Empty: go on to report WAITING
M_getNowait ==
  /\ alive /\ m.pc = "getNowait"
  /\ IF readyq = <<>> THEN /\ m' = [m EXCEPT !.pc = "sendWaiting"] /\ UNCHANGED <<readyq, rrHolder, h>>
     ELSE Popped /\ rrHolder' = "none"
  /\ UNCHANGED <<tasks, tobj, delayed, cancelled, mboxes, box, ctr, receipt, mbHolder, i, hr, envv>>
  /\ Act("M_getNowait", "main")

\* `payload = (1, self.most_recent_read_submit); self._conn.send((WAITING, payload)); self.read_receipt_mutex.release()`
\* (all under the lock; the other thread's unlocked statements touch none of it)
M_sendWaiting ==
  /\ alive /\ m.pc = "sendWaiting"
  /\ h' = [h EXCEPT !.sent = Sent("WAITING", 1)]
  /\ rrHolder' = "none" /\ m' = [m EXCEPT !.pc = "blockGet"]
  /\ UNCHANGED <<tasks, tobj, delayed, readyq, cancelled, mboxes, box, ctr, receipt, mbHolder, i, hr, envv>>
  /\ Act("M_sendWaiting", "main")

\* `addr = self._ready_task_ids.get()`  (blocks)
M_blockGet ==
  /\ alive /\ m.pc = "blockGet" /\ readyq # <<>>
  /\ Popped
  /\ UNCHANGED <<tasks, tobj, delayed, cancelled, mboxes, box, ctr, receipt, rrHolder, mbHolder, i, hr, envv>>
  /\ Act("M_blockGet", "main")

\* `task_or_none = self._tasks.get(addr)` - main now holds the object
M_lookup ==
  /\ alive /\ m.pc = "lookup"
  /\ m' = [m EXCEPT !.pc = "checkCancelled", !.found = InTasks(m.addr), !.task = IF InTasks(m.addr) THEN m.addr ELSE None]
  /\ UNCHANGED <<shared, i, hr, envv, h>> /\ Act("M_lookup", "main")

Discard == /\ tasks' = IF ForgetDiscarded THEN Without(tasks, m.addr) ELSE tasks
           /\ tobj' = Reap(tobj, tasks', m.task)
           /\ m' = IdleM /\ h' = [h EXCEPT !.mustDiscard = FALSE]

\* `if addr in self._cancelled_task_ids or task_or_none is None: self._tasks.pop(addr, None); continue`
M_checkCancelled ==
  /\ alive /\ m.pc = "checkCancelled"
  /\ IF m.addr \in cancelled \/ ~m.found THEN Discard
     ELSE m' = [m EXCEPT !.pc = "checkCrumbs"] /\ UNCHANGED <<tasks, tobj, h>>
  /\ UNCHANGED <<delayed, readyq, cancelled, mboxes, box, ctr, receipt, rrHolder, mbHolder, i, hr, envv>>
  /\ Act("M_checkCancelled", "main")

\* `if any(bcb in self._cancelled_task_ids for bcb in task.breadcrumbs): pop; continue` / `return task`, then in
\* _try_step_next_ready_task `self._active_task = task` and the call of _get_desired_result (which returns None at once
\* when the task awaits nothing)
M_checkCrumbs ==
  /\ alive /\ m.pc = "checkCrumbs"
  /\ LET o == tobj[m.task] IN
     IF Range(o.crumbs) \cap cancelled # {} THEN Discard
     ELSE /\ m' = [m EXCEPT !.pc = IF o.desired = NoBox THEN "resume" ELSE "gdrLock"]
          /\ UNCHANGED <<tasks, tobj, h>>
  /\ UNCHANGED <<delayed, readyq, cancelled, mboxes, box, ctr, receipt, rrHolder, mbHolder, i, hr, envv>>
  /\ Act("M_checkCrumbs", "main")

\* `with self.mailbox_mutex:` in _get_desired_result
M_gdrLock ==
  /\ alive /\ m.pc = "gdrLock" /\ (MailboxLocked => mbHolder = "none")
  /\ mbHolder' = IF MailboxLocked THEN "main" ELSE mbHolder
  /\ m' = [m EXCEPT !.pc = "gdrBody"]
  /\ UNCHANGED <<tasks, tobj, delayed, readyq, cancelled, mboxes, box, ctr, receipt, rrHolder, i, hr, envv, h>>
  /\ Act("M_gdrLock", "main")

Raise(kind) == m' = [m EXCEPT !.pc = "exc", !.exc = kind]
\* repaired code: the mailboxes a task owns are dropped (Worker._drop_mailboxes_if_cancelled)
DropOwned(a) == /\ mboxes' = mboxes \ tobj[a].owned /\ box' = DelAll(box, tobj[a].owned)

\* body of _get_desired_result (+ the reset of the await flags at the start of RuntimeTask.step)
M_gdrBody ==
  /\ alive /\ m.pc = "gdrBody"
  /\ LET o == tobj[m.task] id == o.desired IN
     IF id \notin mboxes THEN Raise("KeyError") /\ UNCHANGED <<tobj, mboxes, box, h>>
     ELSE IF o.won THEN /\ box' = [box EXCEPT ![id].fresh = {}]
                        /\ tobj' = [tobj EXCEPT ![m.task].desired = NoBox, ![m.task].won = FALSE]
                        /\ m' = [m EXCEPT !.pc = "resume"] /\ UNCHANGED <<mboxes, h>>
     ELSE IF ~BoxReady(box[id]) THEN Raise("AssertionError") /\ UNCHANGED <<tobj, mboxes, box, h>>
     ELSE /\ tobj' = [tobj EXCEPT ![m.task].desired = NoBox, ![m.task].owned = @ \ {id}]
          /\ mboxes' = mboxes \ {id} /\ box' = Del(box, id)
          /\ h' = [h EXCEPT !.orphanWaiter = @ \/ box[id].dest # None]
          /\ m' = [m EXCEPT !.pc = "resume"]
  /\ mbHolder' = Release("main", mbHolder)
  /\ UNCHANGED <<tasks, delayed, readyq, cancelled, ctr, receipt, rrHolder, i, hr, envv>>
  /\ Act("M_gdrBody", "main")

\* `except Exception:` in _try_step_next_ready_task: a cancelled task's failure is swallowed, any other is sent up as ERROR
M_exc ==
  /\ alive /\ m.pc = "exc"
  /\ LET o == tobj[m.task]
         swallowed == \E x \in cancelled : Descends(m.task, o.crumbs, x)
     IN h' = IF swallowed THEN h ELSE [h EXCEPT !.errs = @ \cup {m.exc}, !.sent = Sent("ERROR", 1)]
  /\ IF DropLateBoxes /\ ~InTasks(m.task) /\ (\E x \in cancelled : Descends(m.task, tobj[m.task].crumbs, x))
     THEN DropOwned(m.task) ELSE UNCHANGED <<mboxes, box>>
  /\ tobj' = Reap(tobj, tasks, m.task)
  /\ m' = IdleM
  /\ UNCHANGED <<tasks, delayed, readyq, cancelled, ctr, receipt, rrHolder, mbHolder, i, hr, envv>>
  /\ Act("M_exc", "main")

\* `to_return = self.coro.send(send_val)` in RuntimeTask.step: the body runs up to its next runtime call
M_resume ==
  /\ alive /\ m.pc = "resume"
  /\ LET o == tobj[m.task] IN
     IF o.closed THEN Raise("ClosedCoroutine") /\ h' = h
     ELSE /\ m' = [m EXCEPT !.pc = InsPc(o)]
          /\ h' = IF o.ipc = 1 THEN [h EXCEPT !.runs = Bump(@, m.task)] ELSE h
  /\ UNCHANGED <<shared, i, hr, envv>> /\ Act("M_resume", "main")

\* Worker.submit: new mailbox, owned_mailboxes.append, send SUBMIT.  Atomic: the new mailbox is unknown to the other
\* thread until a message that mentions it comes back.
M_submit ==
  /\ alive /\ m.pc = "submit"
  /\ LET o == tobj[m.task] ins == Prog[o.fn][o.ipc] id == ctr
         child == Desc(ins[3], <<Wid, id, 0>>, Append(o.crumbs, m.task))
         o2 == [o EXCEPT !.ipc = @ + 1, !.env = Put(@, ins[2], id), !.owned = @ \cup {id}]
     IN /\ tobj' = [tobj EXCEPT ![m.task] = o2]
        /\ box' = Put(box, id, NewBox(1, ~InTasks(m.task))) /\ mboxes' = mboxes \cup {id} /\ ctr' = ctr + 1
        /\ pool' = pool \cup {[k |-> "S", ts |-> <<child>>]}
        /\ m' = [m EXCEPT !.pc = InsPc(o2)]
  /\ h' = [h EXCEPT !.sent = Sent("SUBMIT", 1)]
  /\ UNCHANGED <<tasks, delayed, readyq, cancelled, receipt, rrHolder, mbHolder, i, hr, remote, echo, cseen, rootc, clientRes, alive>>
  /\ Act("M_submit", "main")

\* Worker.map
M_map ==
  /\ alive /\ m.pc = "map"
  /\ LET o == tobj[m.task] ins == Prog[o.fn][o.ipc] id == ctr
         kids == [j \in 1..ins[4] |-> Desc(ins[3], <<Wid, id, j - 1>>, Append(o.crumbs, m.task))]
         o2 == [o EXCEPT !.ipc = @ + 1, !.env = Put(@, ins[2], id), !.owned = @ \cup {id}]
     IN /\ tobj' = [tobj EXCEPT ![m.task] = o2]
        /\ box' = Put(box, id, NewBox(ins[4], ~InTasks(m.task))) /\ mboxes' = mboxes \cup {id} /\ ctr' = ctr + 1
        /\ pool' = pool \cup {[k |-> "B", ts |-> kids]}
        /\ m' = [m EXCEPT !.pc = InsPc(o2)]
  /\ h' = [h EXCEPT !.sent = Sent("SUBMIT_BATCH", 1)]
  /\ UNCHANGED <<tasks, delayed, readyq, cancelled, receipt, rrHolder, mbHolder, i, hr, remote, echo, cseen, rootc, clientRes, alive>>
  /\ Act("M_map", "main")

CancelAddrs(id, n) == {<<Wid, id, j - 1>> : j \in 1..n}

\* Worker.cancel(future): look the mailbox up (KeyError if _handle_cancel dropped it), forget it, send one CANCEL per slot.
\* _handle_result on the other thread may hold the mailbox object: it then works on an orphan nobody reads (checked:
\* OrphanHasNoWaiter), so this is atomic.
M_cancel ==
  /\ alive /\ m.pc = "cancel"
  /\ LET o == tobj[m.task] ins == Prog[o.fn][o.ipc] id == o.env[ins[2]] IN
     IF id \notin mboxes THEN Raise("KeyError") /\ UNCHANGED <<tobj, mboxes, box, echo, cseen, h>>
     ELSE LET o2 == [o EXCEPT !.ipc = @ + 1, !.owned = @ \ {id}] n == box[id].expected IN
          /\ tobj' = [tobj EXCEPT ![m.task] = o2]
          /\ mboxes' = mboxes \ {id} /\ box' = Del(box, id)
          /\ echo' = echo \cup CancelAddrs(id, n) /\ cseen' = cseen \cup CancelAddrs(id, n)
          /\ h' = [h EXCEPT !.sent = Sent("CANCEL", n), !.orphanWaiter = @ \/ box[id].dest # None]
          /\ m' = [m EXCEPT !.pc = InsPc(o2)]
  /\ UNCHANGED <<tasks, delayed, readyq, cancelled, ctr, receipt, rrHolder, mbHolder, i, hr, pool, remote, rootc, clientRes, alive>>
  /\ Act("M_cancel", "main")

\* Worker.next: `if future.mailbox_id not in self._mailboxes: raise`, set the flag, await the future
M_next ==
  /\ alive /\ m.pc = "next"
  /\ LET o == tobj[m.task] ins == Prog[o.fn][o.ipc] id == o.env[ins[2]] IN
     IF id \notin mboxes THEN Raise("NextOnDroppedBox") ELSE m' = [m EXCEPT !.pc = AwaitPc]
  /\ UNCHANGED <<shared, i, hr, envv, h>> /\ Act("M_next", "main")

\* repaired code only: `if self._drop_mailboxes_if_cancelled(task): return` right after the step
M_stepCheck ==
  /\ alive /\ m.pc = "stepCheck"
  /\ IF InTasks(m.task) THEN m' = [m EXCEPT !.pc = "paLock"] /\ UNCHANGED <<tobj, mboxes, box>>
     ELSE DropOwned(m.task) /\ tobj' = Reap(tobj, tasks, m.task) /\ m' = IdleM
  /\ UNCHANGED <<tasks, delayed, readyq, cancelled, ctr, receipt, rrHolder, mbHolder, i, hr, envv, h>>
  /\ Act("M_stepCheck", "main")

\* `with self.mailbox_mutex:` in _process_await
M_paLock ==
  /\ alive /\ m.pc = "paLock" /\ (MailboxLocked => mbHolder = "none")
  /\ mbHolder' = IF MailboxLocked THEN "main" ELSE mbHolder
  /\ m' = [m EXCEPT !.pc = "paCheck"]
  /\ UNCHANGED <<tasks, tobj, delayed, readyq, cancelled, mboxes, box, ctr, receipt, rrHolder, i, hr, envv, h>>
  /\ Act("M_paLock", "main")

\* `if future.mailbox_id not in self._mailboxes: raise ...; box = ...; task.desired_box_id = ...; task.wake_on_next = ...`
\* (historical order: the registration `box.dest_addr = task.return_address` came first)
M_paCheck ==
  /\ alive /\ m.pc = "paCheck"
  /\ LET o == tobj[m.task] ins == Prog[o.fn][o.ipc] id == o.env[ins[2]] IN
     IF id \notin mboxes
     THEN /\ Raise("AwaitCancelled") /\ mbHolder' = Release("main", mbHolder) /\ UNCHANGED <<tobj, box, h>>
     ELSE /\ tobj' = [tobj EXCEPT ![m.task].desired = id, ![m.task].won = (ins[1] = "next"), ![m.task].ipc = @ + 1]
          /\ box' = IF RegisterIfNotReady THEN box ELSE [box EXCEPT ![id].dest = m.task]
          /\ h' = [h EXCEPT !.awaits = Bump(@, m.task)]
          /\ m' = [m EXCEPT !.pc = "paReady", !.ready = BoxReady(box[id])]
          /\ mbHolder' = mbHolder
  /\ UNCHANGED <<tasks, delayed, readyq, cancelled, mboxes, ctr, receipt, rrHolder, i, hr, envv>>
  /\ Act("M_paCheck", "main")

\* `if box.ready:`  (on the mailbox object; if _handle_cancel dropped it meanwhile nothing was deposited since paCheck)
M_paReady ==
  /\ alive /\ m.pc = "paReady"
  /\ LET id == tobj[m.task].desired IN
     m' = [m EXCEPT !.pc = "paAct", !.ready = IF id \in mboxes THEN BoxReady(box[id]) ELSE m.ready]
  /\ UNCHANGED <<shared, i, hr, envv, h>> /\ Act("M_paReady", "main")

\* `self._ready_task_ids.put(task.return_address)`  |  `box.dest_addr = task.return_address`; leave the lock; next loop round
M_paAct ==
  /\ alive /\ m.pc = "paAct"
  /\ LET id == tobj[m.task].desired IN
     IF m.ready THEN /\ readyq' = Append(readyq, <<m.task, "wake">>) /\ h' = [h EXCEPT !.wakes = Bump(@, m.task)] /\ box' = box
     ELSE /\ box' = IF RegisterIfNotReady /\ id \in mboxes THEN [box EXCEPT ![id].dest = m.task] ELSE box
          /\ UNCHANGED <<readyq, h>>
  /\ mbHolder' = Release("main", mbHolder)
  /\ tobj' = Reap(tobj, tasks, m.task)
  /\ m' = IdleM
  /\ UNCHANGED <<tasks, delayed, cancelled, mboxes, ctr, receipt, rrHolder, i, hr, envv>>
  /\ Act("M_paAct", "main")

\* _process_task_completion: `if task.return_address not in self._tasks: return`; a child of a local parent goes through
\* _handle_result on THIS thread, any other result is sent up
M_complCheck ==
  /\ alive /\ m.pc = "complCheck"
  /\ IF ~InTasks(m.task)
     THEN /\ IF DropLateBoxes THEN DropOwned(m.task) ELSE UNCHANGED <<mboxes, box>>
          /\ tobj' = Reap(tobj, tasks, m.task) /\ m' = IdleM /\ UNCHANGED <<hr, clientRes, h>>
     ELSE IF m.task[1] = Wid
     THEN /\ hr' = [hr EXCEPT !["main"] = [id |-> m.task[2], slot |-> m.task[3], ret |-> "complPop"]]
          /\ m' = [m EXCEPT !.pc = "hrLock"] /\ UNCHANGED <<tobj, clientRes, h, mboxes, box>>
     ELSE /\ clientRes' = IF m.task = RootAddr /\ ~rootc THEN 1 ELSE clientRes
          /\ h' = [h EXCEPT !.sent = Sent("RESULT", 1)]
          /\ m' = [m EXCEPT !.pc = "complPop"] /\ UNCHANGED <<tobj, hr, mboxes, box>>
  /\ UNCHANGED <<tasks, delayed, readyq, cancelled, ctr, receipt, rrHolder, mbHolder, i, pool, remote, echo, cseen, rootc, alive>>
  /\ Act("M_complCheck", "main")

\* `self._tasks.pop(...)`; `for mailbox_id in list(owned_mailboxes):`
M_complPop ==
  /\ alive /\ m.pc = "complPop"
  /\ LET lst == SortedSeq(tobj[m.task].owned) IN
     /\ tasks' = Without(tasks, m.task)
     /\ IF lst = <<>> THEN tobj' = Reap(tobj, tasks', m.task) /\ m' = IdleM
        ELSE tobj' = tobj /\ m' = [m EXCEPT !.pc = "complLoop", !.list = lst]
  /\ UNCHANGED <<delayed, readyq, cancelled, mboxes, box, ctr, receipt, rrHolder, mbHolder, i, hr, envv, h>>
  /\ Act("M_complPop", "main")

\* one round of the loop over the finished task's mailboxes: a complete one is dropped, any other is cancelled
M_complLoop ==
  /\ alive /\ m.pc = "complLoop"
  /\ LET id == Head(m.list) rest == Tail(m.list)
         after == IF rest = <<>> THEN IdleM ELSE [m EXCEPT !.list = rest] IN
     IF id \in mboxes /\ BoxReady(box[id])
     THEN /\ mboxes' = mboxes \ {id} /\ box' = Del(box, id)
          /\ h' = [h EXCEPT !.orphanWaiter = @ \/ box[id].dest # None]
          /\ tobj' = IF rest = <<>> THEN Reap(tobj, tasks, m.task) ELSE tobj
          /\ m' = after /\ UNCHANGED <<echo, cseen>>
     ELSE IF id \notin mboxes
     THEN \* `box = self._mailboxes.get(mailbox_id); if box is None: continue` (dropped by a cancel meanwhile).
          \* Historical: self.cancel() -> KeyError; _process_task_completion runs inside `except StopIteration`, so the sibling
          \* `except Exception` does not apply and the error reaches Worker._loop
          IF TolerantCompletion
          THEN /\ tobj' = IF rest = <<>> THEN Reap(tobj, tasks, m.task) ELSE tobj
               /\ m' = after /\ UNCHANGED <<mboxes, box, echo, cseen, h>>
          ELSE m' = [m EXCEPT !.pc = "die", !.exc = "KeyError"] /\ UNCHANGED <<tobj, mboxes, box, echo, cseen, h>>
     ELSE LET n == box[id].expected IN
          /\ mboxes' = mboxes \ {id} /\ box' = Del(box, id)
          /\ echo' = echo \cup CancelAddrs(id, n) /\ cseen' = cseen \cup CancelAddrs(id, n)
          /\ h' = [h EXCEPT !.sent = Sent("CANCEL", n), !.orphanWaiter = @ \/ box[id].dest # None]
          /\ tobj' = IF rest = <<>> THEN Reap([tobj EXCEPT ![m.task].owned = @ \ {id}], tasks, m.task)
                     ELSE [tobj EXCEPT ![m.task].owned = @ \ {id}]
          /\ m' = after
  /\ UNCHANGED <<tasks, delayed, readyq, cancelled, ctr, receipt, rrHolder, mbHolder, i, hr, pool, remote, rootc, clientRes, alive>>
  /\ Act("M_complLoop", "main")

\* `except Exception:` in Worker._loop: `self._running = False`, ERROR(traceback) goes up, the loop ends and with it the worker
\* process (its boss then shuts the whole runtime down)
M_die ==
  /\ alive /\ m.pc = "die"
  /\ h' = [h EXCEPT !.errs = @ \cup {"loop:" \o m.exc}, !.sent = Sent("ERROR", 1)]
  /\ alive' = FALSE
  /\ UNCHANGED <<shared, m, i, hr, pool, remote, echo, cseen, rootc, clientRes>>
  /\ Act("M_die", "main")

\* ================================================================== _handle_result (either thread)
PC(th) == IF th = "main" THEN m.pc ELSE i.pc
SetPc(th, v) == /\ m' = IF th = "main" THEN [m EXCEPT !.pc = v] ELSE m
                /\ i' = IF th = "inc" THEN (IF v = "recv" THEN IdleI ELSE [i EXCEPT !.pc = v]) ELSE i
\* back in _process_task_completion the main thread sends UPDATE before the next anchor; nobody else can tell
HrReturn(th, hh) == /\ SetPc(th, hr[th].ret) /\ hr' = [hr EXCEPT ![th] = IdleHr] /\ mbHolder' = Release(th, mbHolder)
                    /\ h' = IF th = "main" THEN [hh EXCEPT !.sent = [hh.sent EXCEPT !["UPDATE"] = @ + 1]] ELSE hh

\* `with self.mailbox_mutex:` in _handle_result
HR_lock(th) ==
  /\ alive /\ PC(th) = "hrLock" /\ (MailboxLocked => mbHolder = "none")
  /\ mbHolder' = IF MailboxLocked THEN th ELSE mbHolder
  /\ SetPc(th, "hrDeposit")
  /\ UNCHANGED <<tasks, tobj, delayed, readyq, cancelled, mboxes, box, ctr, receipt, rrHolder, hr, envv, h>>
  /\ Act("HR_lock", th)

\* `box_or_none = self._mailboxes.get(mailbox_id)` (None: dropped by a cancel, ignore); `box.deposit_result(result)`
HR_deposit(th) ==
  /\ alive /\ PC(th) = "hrDeposit"
  /\ LET id == hr[th].id IN
     IF id \notin mboxes THEN HrReturn(th, h) /\ box' = box
     ELSE /\ box' = [box EXCEPT ![id].num = @ + 1, ![id].fresh = @ \cup {hr[th].slot}]
          /\ SetPc(th, "hrCheck") /\ UNCHANGED <<hr, mbHolder, h>>
  /\ UNCHANGED <<tasks, tobj, delayed, readyq, cancelled, mboxes, ctr, receipt, rrHolder, envv>>
  /\ Act("HR_deposit", th)

\* `if box.has_task_waiting:` ... `task_or_none = self._tasks.get(box.dest_addr)` ... `if task.wake_on_next or box.ready:`
\* (a mailbox dropped since the deposit has no waiter - OrphanHasNoWaiter - so the orphan is not followed)
HR_check(th) ==
  /\ alive /\ PC(th) = "hrCheck"
  /\ LET id == hr[th].id IN
     IF id \in mboxes /\ box[id].dest # None /\ InTasks(box[id].dest) /\ (tobj[box[id].dest].won \/ BoxReady(box[id]))
     THEN SetPc(th, "hrWake") /\ UNCHANGED <<hr, mbHolder, h>>
     ELSE HrReturn(th, h)
  /\ UNCHANGED <<tasks, tobj, delayed, readyq, cancelled, mboxes, box, ctr, receipt, rrHolder, envv>>
  /\ Act("HR_check", th)

\* `dest_addr = box.dest_addr; box.dest_addr = None; self._ready_task_ids.put(dest_addr)`
\* (historical order: `self._ready_task_ids.put(box.dest_addr)` and only then `box.dest_addr = None`)
HR_wake(th) ==
  /\ alive /\ PC(th) = "hrWake"
  /\ LET id == hr[th].id IN
     IF id \notin mboxes \/ box[id].dest = None THEN HrReturn(th, h) /\ UNCHANGED <<box, readyq>>
     ELSE LET woke == [h EXCEPT !.wakes = Bump(@, box[id].dest)] IN
          /\ readyq' = Append(readyq, <<box[id].dest, "wake">>)
          /\ IF RegisterIfNotReady THEN box' = [box EXCEPT ![id].dest = None] /\ HrReturn(th, woke)
             ELSE box' = box /\ SetPc(th, "hrClear") /\ h' = woke /\ UNCHANGED <<hr, mbHolder>>
  /\ UNCHANGED <<tasks, tobj, delayed, cancelled, mboxes, ctr, receipt, rrHolder, envv>>
  /\ Act("HR_wake", th)

HR_clear(th) ==
  /\ alive /\ PC(th) = "hrClear"
  /\ box' = IF hr[th].id \in mboxes THEN [box EXCEPT ![hr[th].id].dest = None] ELSE box
  /\ HrReturn(th, h)
  /\ UNCHANGED <<tasks, tobj, delayed, readyq, cancelled, mboxes, ctr, receipt, rrHolder, envv>>
  /\ Act("HR_clear", th)

\* ================================================================== incoming thread (+ the environment's deliveries)
SubSeqOf(ts, S) == LET idx == SortedSeq(S) IN [k \in 1..Len(idx) |-> ts[idx[k]]]
AtRecv == alive /\ i.pc = "recv"

\* the boss assigns a submitted group: the tasks with index in S come here in one message, the others run remotely
I_recvTasks(g, S) ==
  /\ AtRecv /\ g \in pool /\ S # {}
  /\ \A j \in 1..Len(g.ts) : IF j \in S THEN LocalOK(g.ts[j]) ELSE RemoteOK(g.ts[j])
  /\ pool' = pool \ {g}
  /\ remote' = remote \cup {g.ts[j] : j \in (1..Len(g.ts)) \ S}
  /\ i' = [i EXCEPT !.pc = IF g.k = "S" THEN "subLock" ELSE "batLock",
                    !.msg = [t |-> IF g.k = "S" THEN "SUBMIT" ELSE "SUBMIT_BATCH", addr |-> None, ts |-> SubSeqOf(g.ts, S)]]
  /\ UNCHANGED <<shared, m, hr, echo, cseen, rootc, clientRes, alive, h>>
  /\ Act("I_recvTasks", "inc")

RecvResult(d) ==
  /\ i' = [i EXCEPT !.pc = "hrLock", !.msg = [t |-> "RESULT", addr |-> d.addr, ts |-> <<>>]]
  /\ hr' = [hr EXCEPT !["inc"] = [id |-> d.addr[2], slot |-> d.addr[3], ret |-> "recv"]]

\* the RESULT of a child that ran on another worker
I_recvResult(d) ==
  /\ AtRecv /\ d \in remote
  /\ remote' = remote \ {d} /\ RecvResult(d)
  /\ UNCHANGED <<shared, m, pool, echo, cseen, rootc, clientRes, alive, h>>
  /\ Act("I_recvResult", "inc")

\* ... of a group that was assigned to other workers entirely
I_recvResultOfGroup(g, j) ==
  /\ AtRecv /\ g \in pool /\ j \in 1..Len(g.ts) /\ \A k \in 1..Len(g.ts) : RemoteOK(g.ts[k])
  /\ pool' = pool \ {g} /\ remote' = remote \cup {g.ts[k] : k \in (1..Len(g.ts)) \ {j}}
  /\ RecvResult(g.ts[j])
  /\ UNCHANGED <<shared, m, echo, cseen, rootc, clientRes, alive, h>>
  /\ Act("I_recvResultOfGroup", "inc")

\* a CANCEL this worker sent up comes back with the broadcast
I_recvCancel(a) ==
  /\ AtRecv /\ a \in echo
  /\ echo' = echo \ {a}
  /\ i' = [i EXCEPT !.pc = "hcAdd", !.msg = [t |-> "CANCEL", addr |-> a, ts |-> <<>>]]
  /\ UNCHANGED <<shared, m, hr, pool, remote, cseen, rootc, clientRes, alive, h>>
  /\ Act("I_recvCancel", "inc")

\* the client cancels the compilation (or disconnects): CANCEL of the root task's address
I_recvClientCancel ==
  /\ AtRecv /\ EnvCancelRoot /\ ~rootc /\ clientRes = 0
  /\ rootc' = TRUE /\ cseen' = cseen \cup {RootAddr}
  /\ i' = [i EXCEPT !.pc = "hcAdd", !.msg = [t |-> "CANCEL", addr |-> RootAddr, ts |-> <<>>]]
  /\ UNCHANGED <<shared, m, hr, pool, remote, echo, clientRes, alive, h>>
  /\ Act("I_recvClientCancel", "inc")

\* a task of cancelled work that was sent elsewhere is discarded there: no RESULT ever comes
CancelledForEnv(d) == \E x \in cseen : Descends(d.addr, d.crumbs, x)
EnvDrop(d) ==
  /\ alive /\ d \in remote /\ CancelledForEnv(d)
  /\ remote' = remote \ {d}
  /\ UNCHANGED <<shared, m, i, hr, pool, echo, cseen, rootc, clientRes, alive, h>>
  /\ Act("EnvDrop", "env")
EnvDropGroup(g) ==
  /\ alive /\ g \in pool /\ \A k \in 1..Len(g.ts) : RemoteOK(g.ts[k]) /\ CancelledForEnv(g.ts[k])
  /\ pool' = pool \ {g}
  /\ UNCHANGED <<shared, m, i, hr, remote, echo, cseen, rootc, clientRes, alive, h>>
  /\ Act("EnvDropGroup", "env")

\* SUBMIT: `self.read_receipt_mutex.acquire()`
I_subLock ==
  /\ alive /\ i.pc = "subLock" /\ rrHolder = "none"
  /\ rrHolder' = "inc" /\ i' = [i EXCEPT !.pc = "subBody"]
  /\ UNCHANGED <<tasks, tobj, delayed, readyq, cancelled, mboxes, box, ctr, receipt, mbHolder, m, hr, envv, h>>
  /\ Act("I_subLock", "inc")

AddTask(d) == /\ tasks' = IF InTasks(d.addr) THEN tasks ELSE Append(tasks, d.addr)
              /\ tobj' = Put(tobj, d.addr, NewObj(d))
              /\ readyq' = Append(readyq, <<d.addr, "start">>)

\* `self.most_recent_read_submit = task.unique_id; self._add_task(task); release`.  Atomic: the main thread learns of the
\* new address only from the ready queue (the put is the last statement) and reads the receipt only under this lock.
I_subBody ==
  /\ alive /\ i.pc = "subBody"
  /\ LET d == i.msg.ts[1] IN AddTask(d) /\ receipt' = d.addr /\ h' = [h EXCEPT !.lastEnq = d.addr]
  /\ rrHolder' = "none" /\ i' = IdleI
  /\ UNCHANGED <<delayed, cancelled, mboxes, box, ctr, mbHolder, m, hr, envv>>
  /\ Act("I_subBody", "inc")

\* SUBMIT_BATCH: `self.read_receipt_mutex.acquire()`
I_batLock ==
  /\ alive /\ i.pc = "batLock" /\ rrHolder = "none"
  /\ rrHolder' = "inc" /\ i' = [i EXCEPT !.pc = "batBody1"]
  /\ UNCHANGED <<tasks, tobj, delayed, readyq, cancelled, mboxes, box, ctr, receipt, mbHolder, m, hr, envv, h>>
  /\ Act("I_batLock", "inc")

BatFirst == i.msg.ts[Len(i.msg.ts)]
BatRest == SubSeq(i.msg.ts, 1, Len(i.msg.ts) - 1)
\* `self.most_recent_read_submit = tasks[0].unique_id; first_task = tasks.pop()` and the FIRST of the two statements
\* {delay the rest, start one} - the main thread reads both the delayed list and the ready queue outside this lock
I_batBody1 ==
  /\ alive /\ i.pc = "batBody1"
  /\ receipt' = i.msg.ts[1].addr
  /\ IF DelayBeforeStart THEN delayed' = delayed \o BatRest /\ UNCHANGED <<tasks, tobj, readyq>>
     ELSE AddTask(BatFirst) /\ delayed' = delayed
  /\ i' = [i EXCEPT !.pc = "batBody2"]
  /\ UNCHANGED <<cancelled, mboxes, box, ctr, rrHolder, mbHolder, m, hr, envv, h>>
  /\ Act("I_batBody1", "inc")

\* the SECOND of the two statements; `self.read_receipt_mutex.release()`
I_batBody2 ==
  /\ alive /\ i.pc = "batBody2"
  /\ IF DelayBeforeStart THEN AddTask(BatFirst) /\ delayed' = delayed
     ELSE delayed' = delayed \o BatRest /\ UNCHANGED <<tasks, tobj, readyq>>
  /\ h' = [h EXCEPT !.lastEnq = i.msg.ts[1].addr]
  /\ rrHolder' = "none" /\ i' = IdleI
  /\ UNCHANGED <<cancelled, mboxes, box, ctr, receipt, mbHolder, m, hr, envv>>
  /\ Act("I_batBody2", "inc")

\* _handle_cancel: `self._cancelled_task_ids.add(addr)`; `for key, task in list(self._tasks.items()):` (a snapshot)
I_hcAdd ==
  /\ alive /\ i.pc = "hcAdd"
  /\ cancelled' = cancelled \cup {i.msg.addr}
  /\ LET lst == SelectSeq(tasks, LAMBDA a : Descends(a, tobj[a].crumbs, i.msg.addr)) IN
     i' = [i EXCEPT !.pc = IF lst # <<>> THEN "hcTask" ELSE "hcDelayed", !.list = lst]
  /\ UNCHANGED <<tasks, tobj, delayed, readyq, mboxes, box, ctr, receipt, rrHolder, mbHolder, m, hr, envv, h>>
  /\ Act("I_hcAdd", "inc")

\* one descendant: `task.cancel()` (closes the coroutine unless it is executing right now); drop its mailboxes; forget it.
\* The main thread may still hold the object (it looked it up, or is running it): then it lives on, closed.  The snapshot
\* holds the object, so this also happens to a task the main thread has dropped from _tasks in the meantime.
I_hcTask ==
  /\ alive /\ i.pc = "hcTask"
  /\ LET a == Head(i.list) rest == Tail(i.list) IN
     /\ IF a \in DOMAIN tobj
        THEN LET o == tobj[a] running == m.task = a /\ m.pc \in RunningPcs IN
             IF DropLateBoxes
             THEN \* repaired order: forget the task now, drop its mailboxes in the next step (I_hcBoxes)
                  /\ tasks' = Without(tasks, a)
                  /\ tobj' = [tobj EXCEPT ![a].closed = @ \/ ~running]
                  /\ UNCHANGED <<mboxes, box>>
             ELSE /\ mboxes' = mboxes \ o.owned /\ box' = DelAll(box, o.owned)
                  /\ tasks' = Without(tasks, a)
                  /\ tobj' = IF m.task = a THEN [tobj EXCEPT ![a].closed = @ \/ ~running] ELSE Del(tobj, a)
        ELSE UNCHANGED <<mboxes, box, tasks, tobj>>
     /\ i' = IF DropLateBoxes /\ a \in DOMAIN tobj THEN [i EXCEPT !.pc = "hcBoxes"]
             ELSE [i EXCEPT !.pc = IF rest # <<>> THEN "hcTask" ELSE "hcDelayed", !.list = rest]
  /\ UNCHANGED <<delayed, readyq, cancelled, ctr, receipt, rrHolder, mbHolder, m, hr, envv, h>>
  /\ Act("I_hcTask", "inc")

\* repaired code only: `for mailbox_id in list(task.owned_mailboxes): self._mailboxes.pop(mailbox_id, None)` after the task was forgotten
I_hcBoxes ==
  /\ alive /\ i.pc = "hcBoxes"
  /\ LET a == Head(i.list) rest == Tail(i.list) IN
     /\ IF a \in DOMAIN tobj
        THEN /\ mboxes' = mboxes \ tobj[a].owned /\ box' = DelAll(box, tobj[a].owned)
             /\ tobj' = IF m.task = a THEN tobj ELSE Del(tobj, a)
        ELSE UNCHANGED <<mboxes, box, tobj>>
     /\ i' = [i EXCEPT !.pc = IF rest # <<>> THEN "hcTask" ELSE "hcDelayed", !.list = rest]
  /\ UNCHANGED <<tasks, delayed, readyq, cancelled, ctr, receipt, rrHolder, mbHolder, m, hr, envv, h>>
  /\ Act("I_hcBoxes", "inc")

DelayedDescends(d) == Descends(d.addr, d.crumbs, i.msg.addr)
\* `for t in [t for t in self._delayed_tasks if t.is_descendant_of(addr)]:` (a snapshot of the doomed delayed tasks)
\* historical: the right-hand side of `self._delayed_tasks = [t for t in self._delayed_tasks if not ...]`
I_hcDelayed ==
  /\ alive /\ i.pc = "hcDelayed"
  /\ LET doomed == SelectSeq(delayed, DelayedDescends)
         kept == SelectSeq(delayed, LAMBDA d : ~DelayedDescends(d)) IN
     i' = IF CancelInPlace THEN (IF doomed = <<>> THEN IdleI ELSE [i EXCEPT !.pc = "hcRemove", !.dl = doomed])
          ELSE [i EXCEPT !.pc = "hcRebind", !.dl = kept]
  /\ UNCHANGED <<shared, m, hr, envv, h>>
  /\ Act("I_hcDelayed", "inc")

\* `self._delayed_tasks.remove(t)` (ValueError: already popped by the main thread)
I_hcRemove ==
  /\ alive /\ i.pc = "hcRemove"
  /\ delayed' = RemoveFirst(delayed, Head(i.dl))
  /\ i' = IF Tail(i.dl) = <<>> THEN IdleI ELSE [i EXCEPT !.dl = Tail(i.dl)]
  /\ UNCHANGED <<tasks, tobj, readyq, cancelled, mboxes, box, ctr, receipt, rrHolder, mbHolder, m, hr, envv, h>>
  /\ Act("I_hcRemove", "inc")

\* historical: the assignment itself
I_hcRebind ==
  /\ alive /\ i.pc = "hcRebind"
  /\ delayed' = i.dl /\ i' = IdleI
  /\ UNCHANGED <<tasks, tobj, readyq, cancelled, mboxes, box, ctr, receipt, rrHolder, mbHolder, m, hr, envv, h>>
  /\ Act("I_hcRebind", "inc")

\* ------------------------------------------------------------------ the end
EnvIdle == pool = {} /\ remote = {} /\ echo = {}
Quiescent == alive /\ m.pc = "blockGet" /\ readyq = <<>> /\ i.pc = "recv" /\ EnvIdle
Answered == clientRes # 0 \/ rootc \/ h.errs # {}
\* SHUTDOWN (the worker process is killed) once the compilation is over and nothing is in flight
I_shutdown ==
  /\ Quiescent /\ Answered
  /\ alive' = FALSE
  /\ UNCHANGED <<shared, m, i, hr, pool, remote, echo, cseen, rootc, clientRes, h>>
  /\ Act("I_shutdown", "inc")
Halt == ~alive /\ ~Record /\ UNCHANGED vars

MainNext == \/ M_top \/ M_popDelayed \/ M_addDelayed \/ M_putDelayed \/ M_lockRR \/ M_getNowait \/ M_sendWaiting
            \/ M_blockGet \/ M_lookup \/ M_checkCancelled \/ M_checkCrumbs \/ M_gdrLock \/ M_gdrBody \/ M_exc \/ M_resume
            \/ M_submit \/ M_map \/ M_cancel \/ M_next \/ M_stepCheck \/ M_paLock \/ M_paCheck \/ M_paReady \/ M_paAct
            \/ M_complCheck \/ M_complPop \/ M_complLoop \/ M_die
            \/ HR_lock("main") \/ HR_deposit("main") \/ HR_check("main") \/ HR_wake("main") \/ HR_clear("main")
IncNext == \/ \E g \in pool : \E S \in SUBSET (1..Len(g.ts)) : I_recvTasks(g, S)
           \/ \E d \in remote : I_recvResult(d)
           \/ \E g \in pool : \E j \in 1..Len(g.ts) : I_recvResultOfGroup(g, j)
           \/ \E a \in echo : I_recvCancel(a)
           \/ I_recvClientCancel
           \/ I_subLock \/ I_subBody \/ I_batLock \/ I_batBody1 \/ I_batBody2
           \/ I_hcAdd \/ I_hcTask \/ I_hcBoxes \/ I_hcDelayed \/ I_hcRemove \/ I_hcRebind
           \/ HR_lock("inc") \/ HR_deposit("inc") \/ HR_check("inc") \/ HR_wake("inc") \/ HR_clear("inc")
           \/ I_shutdown
EnvNext == \/ \E d \in remote : EnvDrop(d)
           \/ \E g \in pool : EnvDropGroup(g)
Next == MainNext \/ IncNext \/ EnvNext \/ Halt
Spec == Init /\ [][Next]_vars
FairSpec == Spec /\ WF_vars(MainNext) /\ WF_vars(IncNext) /\ WF_vars(EnvNext)

\* ================================================================== properties
\* (1) exactly one wake-up per await / next
NoDoubleWake == \A a \in DOMAIN h.wakes : a \in DOMAIN h.awaits /\ h.wakes[a] <= h.awaits[a]
QueuedOnce == \A k, l \in 1..Len(readyq) : readyq[k][1] = readyq[l][1] => k = l
\* a task on the ready queue because it was woken did await, and no mailbox still has it registered ("prevent double wake")
WokenNotRegistered ==
  \A k \in 1..Len(readyq) : readyq[k][2] = "wake" =>
      LET a == readyq[k][1] IN (InTasks(a) => tobj[a].desired # NoBox) /\ \A id \in mboxes : box[id].dest # a
\* (2) no lost wake-up: a registered task whose mailbox is satisfied is on the queue or about to be put there
HrActiveOn(id) == \E th \in Threads : hr[th].id = id /\ PC(th) \in {"hrCheck", "hrWake", "hrClear"}
Satisfied(a) == LET o == tobj[a] IN o.desired \in mboxes /\ box[o.desired].dest = a /\ BoxReady(box[o.desired])
NoLostWake == \A a \in Range(tasks) : Satisfied(a) => a \in QAddrs \/ HrActiveOn(tobj[a].desired) \/ (m.task = a /\ m.pc \in {"paReady", "paAct"})
NoHang == Quiescent => Answered
Finishes == <>(~alive)
\* (3) WAITING is reported only with nothing to start, and its read receipt names the last batch that was enqueued
WaitingOK == m.pc = "sendWaiting" =>
               /\ delayed = <<>>
               /\ \A k \in 1..Len(readyq) : readyq[k][2] = "wake"
               /\ receipt = h.lastEnq /\ rrHolder = "main"
\* (4) a body starts at most once; never after an ancestor's cancellation was known when it was popped
RunAtMostOnce == \A a \in DOMAIN h.runs : h.runs[a] <= 1
NoStartAfterCancel == h.mustDiscard => m.pc \in {"lookup", "checkCancelled", "checkCrumbs"}
\* (5) nothing is left when everything is over
\* ... except - a defect of the current code, see NoLateBox - mailboxes that a task created after it was cancelled while running
NoResidue == Quiescent => tasks = <<>> /\ delayed = <<>> /\ DOMAIN tobj = {} /\ \A id \in mboxes : box[id].late
\* the repaired code (DropLateBoxes) leaves nothing at all
NoResidueStrict == Quiescent => tasks = <<>> /\ delayed = <<>> /\ DOMAIN tobj = {} /\ mboxes = {}
\* KNOWN TO FAIL on the current code whenever a CANCEL is handled while a task it cancels is executing: the task is dropped
\* from _tasks and its mailboxes are removed, but its body runs on to its next await and the mailboxes it creates on the way
\* (and the one it parks on) are never removed
NoLateBox == \A id \in mboxes : ~box[id].late
\* no error reaches the client that no task body raised (the programs raise nothing)
NoErr == h.errs = {}
OrphanHasNoWaiter == ~h.orphanWaiter
LockDiscipline == /\ (rrHolder = "main") = (m.pc \in {"getNowait", "sendWaiting"})
                  /\ (rrHolder = "inc") = (i.pc \in {"subBody", "batBody1", "batBody2"})
                  /\ MailboxLocked => /\ (mbHolder = "main") = (m.pc \in {"gdrBody", "paCheck", "paReady", "paAct", "hrDeposit", "hrCheck", "hrWake", "hrClear"})
                                      /\ (mbHolder = "inc") = (i.pc \in {"hrDeposit", "hrCheck", "hrWake", "hrClear"})
\* simulation mode: print every behaviour that reaches the end (or, with a fix switched off, hangs)
Dump == IF Record /\ (~alive \/ (Quiescent /\ ~Answered)) THEN PrintT(<<"BEHAVIOUR", ToJson(hist)>>) ELSE TRUE
=============================================================================
