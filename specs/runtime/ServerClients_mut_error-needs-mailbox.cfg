SPECIFICATION Spec
CONSTANTS NC = 2
 IDS = {"a", "b"}
 Record = FALSE
 Mut = "error-needs-mailbox"
INVARIANT NoCrash
INVARIANT RepliesConsistent
INVARIANT TablesConsistent
INVARIANT NoOrphanMailbox
INVARIANT NoCancelledResidue
INVARIANT NoResidueOfGoneClient
INVARIANT WaitingIsLive
CHECK_DEADLOCK FALSE
