---------------------------- MODULE WorkerFineMC ----------------------------
(* Model-checking instances of WorkerFine: the task programs and placements of the configurations
   WorkerFine_*.cfg (same instruction language as Runtime.tla / harness/rtprog.py). *)
EXTENDS WorkerFine

Leaf == << <<"ret">> >>
\* submit + await (the child runs here or elsewhere)
P_SA == [root |-> << <<"submit", "a", "leaf">>, <<"await", "a">>, <<"ret">> >>, leaf |-> Leaf]
\* two futures awaited one after the other (a second wake-up of the parent hits it while it waits for the other future)
P_SAB == [root |-> << <<"submit", "a", "leaf">>, <<"submit", "b", "leaf">>, <<"await", "a">>, <<"await", "b">>, <<"ret">> >>, leaf |-> Leaf]
\* map + await: local completion on the main thread racing a remote RESULT on the incoming thread; a batch of 2 arriving
\* while the main thread decides to report WAITING
P_MA == [root |-> << <<"map", "m", "leaf", 2>>, <<"await", "m">>, <<"ret">> >>, leaf |-> Leaf]
P_MA3 == [root |-> << <<"map", "m", "leaf", 3>>, <<"await", "m">>, <<"ret">> >>, leaf |-> Leaf]
\* map + next + await
P_MNA == [root |-> << <<"map", "m", "leaf", 2>>, <<"next", "m">>, <<"await", "m">>, <<"ret">> >>, leaf |-> Leaf]
P_MNA3 == [root |-> << <<"map", "m", "leaf", 3>>, <<"next", "m">>, <<"await", "m">>, <<"ret">> >>, leaf |-> Leaf]
\* two futures awaited in the other order + a nested parent on this worker
P_NEST == [root |-> << <<"submit", "a", "mid">>, <<"submit", "b", "leaf">>, <<"await", "b">>, <<"await", "a">>, <<"ret">> >>,
           mid |-> << <<"submit", "x", "leaf">>, <<"await", "x">>, <<"ret">> >>, leaf |-> Leaf]
\* cancel of a future while its result is in flight; an unconsumed future at completion
P_CAN == [root |-> << <<"submit", "a", "leaf">>, <<"submit", "b", "leaf">>, <<"cancel", "a">>, <<"await", "b">>, <<"ret">> >>, leaf |-> Leaf]
P_LEFT == [root |-> << <<"submit", "a", "leaf">>, <<"map", "m", "leaf", 2>>, <<"await", "a">>, <<"ret">> >>, leaf |-> Leaf]
\* a batch of delayed tasks next to a cancellation (the delayed list is edited by both threads)
P_CANB == [root |-> << <<"map", "m", "leaf", 2>>, <<"submit", "a", "mid">>, <<"cancel", "a">>, <<"await", "m">>, <<"ret">> >>,
           mid |-> << <<"map", "k", "leaf", 2>>, <<"await", "k">>, <<"ret">> >>, leaf |-> Leaf]

PlaceAny == [root |-> "L", mid |-> "L", leaf |-> "LR"]
PlaceLocal == [root |-> "L", mid |-> "L", leaf |-> "L"]
PlaceRemote == [root |-> "L", mid |-> "L", leaf |-> "R"]
=============================================================================
