-------------------------- MODULE WorkerFineTrace --------------------------
(* Conformance of recorded executions of the REAL worker to WorkerFine (code -> specification).

   A trace is the sequence of anchor crossings of one run of the real Worker class (harness/rtfine.py, anchor-granular
   random schedule): [th |-> "main" | "inc", pc |-> the anchor the thread reached, msg |-> the message the boss delivered
   with this step (t = "" if none), p |-> the projected implementation state right after].  The trace is accepted iff
   WorkerFine has a behaviour whose visible steps are exactly these: step l must be a WorkerFine action of thread th that
   ends at pc and whose post-state projects onto p.  The environment's own steps (a task discarded elsewhere) are silent.
   Acceptance is by reachability: TLC prints <<"ACCEPT", tid>> when some matching behaviour consumed the whole trace and
   <<"AT", tid, l>> is not needed - the harness reports the traces that were never accepted (DRIFT, not a violation).
   All traces of one file belong to one configuration (Prog / Place / switches are constants of the .cfg). *)
EXTENDS WorkerFine, IOUtils

Traces == JsonDeserialize(IOEnv.TRACE_FILE)
VARIABLES tid, l
tvars == <<vars, tid, l>>

TraceInit == Init /\ tid \in 1..Len(Traces) /\ l = 1
Ev == Traces[tid][l]
SeqRange(s) == {s[k] : k \in 1..Len(s)}
MsgOK(e) == e.msg.t # "" => /\ i'.msg.t = e.msg.t
                            /\ i'.msg.addr = e.msg.addr
                            /\ [k \in 1..Len(i'.msg.ts) |-> i'.msg.ts[k].addr] = [k \in 1..Len(e.msg.ts) |-> e.msg.ts[k].addr]
Matches(e) ==
  /\ (IF e.th = "main" THEN m'.pc ELSE i'.pc) = e.pc
  /\ MsgOK(e)
  /\ LET q == Proj IN
     /\ q.rq = e.p.rq /\ q.dl = e.p.dl /\ q.tasks = e.p.tasks /\ q.boxes = e.p.boxes
     /\ q.cancelled = SeqRange(e.p.cancelled) /\ q.receipt = e.p.receipt /\ q.ctr = e.p.ctr
     /\ q.rr = e.p.rr /\ q.mb = e.p.mb /\ q.sent = e.p.sent
Visible ==
  /\ l <= Len(Traces[tid])
  /\ IF Ev.th = "main" THEN MainNext /\ i' = i ELSE (IncNext /\ alive' /\ m' = m)
  /\ Matches(Ev)
  /\ l' = l + 1 /\ tid' = tid
  /\ IF l' = Len(Traces[tid]) + 1 THEN PrintT(<<"ACCEPT", tid>>) ELSE TRUE
Silent == EnvNext /\ UNCHANGED <<tid, l>>
TraceNext == Visible \/ Silent
TraceSpec == TraceInit /\ [][TraceNext]_tvars
=============================================================================
