------------------------------- MODULE Managed -------------------------------
(* L2 - scheduler bookkeeping in a MANAGED topology (C15): one server, NM managers, NW workers under each.

   What is modelled is exactly the bookkeeping the statement talks about (base.py RuntimeEmployee / schedule_tasks /
   handle_waiting, manager.py send_up_or_schedule_tasks / handle_result_from_below / update_upstream_idle_workers /
   handle_update, worker.py read receipts): task counts, idle-worker counts, the submit cache and the read receipt
   that corrects a WAITING message crossing a SUBMIT_BATCH in flight.  The workload is one compilation whose root
   task maps K1 leaf tasks, awaits them, maps K2 more, awaits them and returns; leaves just complete.

   Channels are FIFO per direction.  assign_tasks is nondeterministic within what the code allows.
   Invariants: every counter stays in its bounds (the runtime's own assertion), a read receipt is always found in
   the submit cache (otherwise get_num_of_tasks_sent_since raises), every task reaches exactly one worker. *)
EXTENDS Naturals, Integers, Sequences, FiniteSets, TLC

CONSTANTS NM, NW, K1, K2
Mgr == 1..NM
Wkr == Mgr \X (1..NW)
Srv == <<0, 0>>

VARIABLES wu, wd,        \* worker <-> its manager
          mu, md,        \* manager <-> server
          wst,           \* worker -> [q |-> tasks queued, receipt, pc |-> "top" | "blocked", root |-> phase of the root task here or "no"]
          memp,          \* manager -> worker index -> [nt, idle, cache]   (the manager's view of its workers)
          mst,           \* manager -> [idle (num_idle_workers), lastsent, receipt]
          semp,          \* server's view of managers: manager -> [nt, idle, cache]
          sidle,         \* server num_idle_workers
          nextid,        \* fresh batch ids
          got,           \* results the root has received in the current phase
          placed,        \* task id -> number of workers it was delivered to (history)
          err,           \* "none" or what went wrong
          done
vars == <<wu, wd, mu, md, wst, memp, mst, semp, sidle, nextid, got, placed, err, done>>

Total == NM * NW
Sum(f, S) == LET RECURSIVE R(_) R(T) == IF T = {} THEN 0 ELSE LET x == CHOOSE y \in T : TRUE IN f[x] + R(T \ {x}) IN R(S)
RECURSIVE SumCounts(_)
SumCounts(c) == IF c = <<>> THEN 0 ELSE c[1][2] + SumCounts(Tail(c))
RECURSIVE DropUntil(_, _)
DropUntil(c, r) == IF c = <<>> THEN <<>> ELSE IF c[1][1] = r THEN c ELSE DropUntil(Tail(c), r)
Min(a, b) == IF a < b THEN a ELSE b
Max0(a) == IF a < 0 THEN 0 ELSE a

\* a task is [id, dest]: dest = the worker that awaits its result, or Srv for the root
Emp0(tot) == [nt |-> 0, idle |-> tot, cache |-> <<>>]
Init ==
  /\ wu = [w \in Wkr |-> <<>>] /\ wd = [w \in Wkr |-> <<>>] /\ mu = [m \in Mgr |-> <<>>] /\ md = [m \in Mgr |-> <<>>]
  /\ wst = [w \in Wkr |-> [q |-> <<>>, receipt |-> 0, pc |-> "top", root |-> "no"]]      \* every worker starts by reporting WAITING
  /\ memp = [m \in Mgr |-> [i \in 1..NW |-> Emp0(1)]]
  /\ mst = [m \in Mgr |-> [idle |-> NW, lastsent |-> NW, receipt |-> 0]]
  /\ semp = [m \in Mgr |-> Emp0(NW)] /\ sidle = Total
  /\ nextid = 1 /\ got = 0 /\ placed = [i \in {} |-> 0] /\ err = "none" /\ done = FALSE

\* ---- assign_tasks over n employees with idle counts idle[e] and task counts nt[e]: all outcomes the code allows
\* (idle slots first, in any order; the rest one by one to an employee with the fewest tasks, ties free)
RECURSIVE AssignIdle(_, _, _)
AssignIdle(ts, slots, asg) ==          \* slots: function employee -> remaining idle slots
  IF ts = <<>> \/ \A e \in DOMAIN slots : slots[e] = 0 THEN {<<ts, asg>>}
  ELSE UNION {AssignIdle(Tail(ts), [slots EXCEPT ![e] = @ - 1], [asg EXCEPT ![e] = Append(@, Head(ts))]) : e \in {x \in DOMAIN slots : slots[x] > 0}}
RECURSIVE AssignRest(_, _, _)
AssignRest(ts, asg, load) ==
  IF ts = <<>> THEN {asg}
  ELSE LET m == CHOOSE x \in {load[e] : e \in DOMAIN load} : \A e \in DOMAIN load : x <= load[e]
       IN UNION {AssignRest(SubSeq(ts, 1, Len(ts) - 1), [asg EXCEPT ![e] = Append(@, ts[Len(ts)])], [load EXCEPT ![e] = @ + 1]) :
                 e \in {x \in DOMAIN load : load[x] = m}}
Assignments(ts, emp) ==
  LET E == DOMAIN emp
      empty == [e \in E |-> <<>>]
  IN UNION {AssignRest(p[1], p[2], [e \in E |-> emp[e].nt + Len(p[2][e])]) : p \in AssignIdle(ts, [e \in E |-> emp[e].idle], empty)}
\* effect of schedule_tasks on the employee table
Sched(emp, asg) == [e \in DOMAIN emp |-> IF asg[e] = <<>> THEN emp[e]
                     ELSE [nt |-> emp[e].nt + Len(asg[e]), idle |-> emp[e].idle - Min(Len(asg[e]), emp[e].idle),
                           cache |-> Append(emp[e].cache, <<asg[e][1].id, Len(asg[e])>>)]]
\* handle_waiting: returns <<new employee record, error?>>
Waiting(e, n, r) ==
  LET c2 == IF r = 0 THEN e.cache ELSE DropUntil(e.cache, r)
      missing == r # 0 /\ c2 = <<>>
      unacc == IF r = 0 THEN SumCounts(c2) ELSE IF missing THEN 0 ELSE SumCounts(Tail(c2))
  IN <<[e EXCEPT !.idle = Max0(n - unacc), !.cache = c2], missing>>

\* ---- client
ClientSubmit ==
  /\ nextid = 1
  /\ \E asg \in Assignments(<<[id |-> 1, dest |-> Srv]>>, semp) :
       /\ semp' = Sched(semp, asg)
       /\ md' = [m \in Mgr |-> IF asg[m] = <<>> THEN md[m] ELSE Append(md[m], [t |-> "BATCH", ts |-> asg[m]])]
  /\ sidle' = Sum([m \in Mgr |-> semp'[m].idle], Mgr)
  /\ nextid' = 2 /\ placed' = placed
  /\ UNCHANGED <<wu, wd, mu, wst, memp, mst, got, err, done>>

\* ---- server handles a message from manager m
ServerRecv(m) ==
  /\ mu[m] # <<>> /\ err = "none"
  /\ LET msg == Head(mu[m]) IN
     /\ mu' = [mu EXCEPT ![m] = Tail(@)]
     /\ CASE msg.t = "BATCH" ->
               \E asg \in Assignments(msg.ts, semp) :
                  /\ semp' = Sched(semp, asg)
                  /\ md' = [x \in Mgr |-> IF asg[x] = <<>> THEN md[x] ELSE Append(md[x], [t |-> "BATCH", ts |-> asg[x]])]
                  /\ sidle' = Sum([x \in Mgr |-> semp'[x].idle], Mgr) /\ UNCHANGED <<err, done>>
          [] msg.t = "RESULT" ->
               /\ semp' = [semp EXCEPT ![msg.by[1]].nt = @ - 1]
               /\ IF msg.dest = Srv THEN done' = TRUE /\ md' = md
                  ELSE done' = done /\ md' = [md EXCEPT ![msg.dest[1]] = Append(@, msg)]
               /\ UNCHANGED <<sidle, err>>
          [] msg.t = "UPDATE" -> semp' = [semp EXCEPT ![m].nt = @ + msg.d] /\ UNCHANGED <<md, sidle, err, done>>
          [] msg.t = "WAITING" ->
               LET r == Waiting(semp[m], msg.n, msg.r) IN
               /\ semp' = [semp EXCEPT ![m] = r[1]]
               /\ sidle' = sidle + (r[1].idle - semp[m].idle)
               /\ err' = IF r[2] THEN "read receipt not found in the server's submit cache" ELSE err
               /\ UNCHANGED <<md, done>>
  /\ UNCHANGED <<wu, wd, wst, memp, mst, nextid, got, placed>>

\* update_upstream_idle_workers
UpIdle(m, idle, st, out) ==
  IF idle # st.lastsent THEN <<[st EXCEPT !.idle = idle, !.lastsent = idle], Append(out, [t |-> "WAITING", n |-> idle, r |-> st.receipt])>>
  ELSE <<[st EXCEPT !.idle = idle], out>>
MIdle(emp) == Sum([i \in 1..NW |-> emp[i].idle], 1..NW)

\* ---- manager m handles a message from above
ManagerRecvAbove(m) ==
  /\ md[m] # <<>> /\ err = "none"
  /\ LET msg == Head(md[m]) IN
     /\ md' = [md EXCEPT ![m] = Tail(@)]
     /\ CASE msg.t = "BATCH" ->
               \E asg \in Assignments(msg.ts, memp[m]) :
                  /\ memp' = [memp EXCEPT ![m] = Sched(memp[m], asg)]
                  /\ wd' = [w \in Wkr |-> IF w[1] = m /\ asg[w[2]] # <<>> THEN Append(wd[w], [t |-> "BATCH", ts |-> asg[w[2]]]) ELSE wd[w]]
                  /\ mst' = [mst EXCEPT ![m].receipt = msg.ts[1].id, ![m].idle = MIdle(memp'[m])]
          [] msg.t = "RESULT" ->
               /\ wd' = [wd EXCEPT ![msg.dest] = Append(@, msg)] /\ UNCHANGED <<memp, mst>>
  /\ UNCHANGED <<wu, mu, wst, semp, sidle, nextid, got, placed, err, done>>

\* ---- manager m handles a message from its worker i
ManagerRecvBelow(m, i) ==
  /\ wu[<<m, i>>] # <<>> /\ err = "none"
  /\ LET w == <<m, i>> msg == Head(wu[w]) IN
     /\ wu' = [wu EXCEPT ![w] = Tail(@)]
     /\ CASE msg.t = "BATCH" ->         \* send_up_or_schedule_tasks
               LET ni == mst[m].idle
                   keep == SubSeq(msg.ts, 1, Min(ni, Len(msg.ts)))
                   rest == SubSeq(msg.ts, Min(ni, Len(msg.ts)) + 1, Len(msg.ts))
               IN \E asg \in Assignments(keep, memp[m]) :
                    LET emp2 == IF ni # 0 THEN Sched(memp[m], asg) ELSE memp[m]
                        out1 == IF ni # 0 THEN <<[t |-> "UPDATE", d |-> ni]>> ELSE <<>>
                        u == IF ni # 0 THEN UpIdle(m, MIdle(emp2), mst[m], out1) ELSE <<mst[m], out1>>
                        out2 == IF rest # <<>> THEN Append(u[2], [t |-> "BATCH", ts |-> rest]) ELSE u[2]
                    IN /\ memp' = [memp EXCEPT ![m] = emp2]
                       /\ wd' = [x \in Wkr |-> IF ni # 0 /\ x[1] = m /\ asg[x[2]] # <<>> THEN Append(wd[x], [t |-> "BATCH", ts |-> asg[x[2]]]) ELSE wd[x]]
                       /\ mst' = [mst EXCEPT ![m] = u[1]]
                       /\ mu' = [mu EXCEPT ![m] = @ \o out2]
                       /\ err' = err
          [] msg.t = "RESULT" ->        \* handle_result_from_below
               /\ memp' = [memp EXCEPT ![m][msg.by[2]].nt = @ - 1]
               /\ IF msg.dest # Srv /\ msg.dest[1] = m
                  THEN /\ wd' = [wd EXCEPT ![msg.dest] = Append(@, msg)] /\ mu' = [mu EXCEPT ![m] = Append(@, [t |-> "UPDATE", d |-> 0 - 1])]
                  ELSE /\ wd' = wd /\ mu' = [mu EXCEPT ![m] = Append(@, msg)]
               /\ UNCHANGED <<mst, err>>
          [] msg.t = "UPDATE" ->
               /\ memp' = [memp EXCEPT ![m][i].nt = @ + msg.d] /\ mu' = [mu EXCEPT ![m] = Append(@, msg)]
               /\ UNCHANGED <<wd, mst, err>>
          [] msg.t = "WAITING" ->
               LET r == Waiting(memp[m][i], msg.n, msg.r)
                   emp2 == [memp[m] EXCEPT ![i] = r[1]]
                   nidle == mst[m].idle + (r[1].idle - memp[m][i].idle)
                   u == UpIdle(m, nidle, mst[m], <<>>)
               IN /\ memp' = [memp EXCEPT ![m] = emp2] /\ mst' = [mst EXCEPT ![m] = u[1]]
                  /\ mu' = [mu EXCEPT ![m] = @ \o u[2]] /\ wd' = wd
                  /\ err' = IF r[2] THEN "read receipt not found in a manager's submit cache" ELSE err
  /\ UNCHANGED <<md, wst, semp, sidle, nextid, got, placed, done>>

\* ---- worker
WorkerIn(w) ==
  /\ wd[w] # <<>>
  /\ LET msg == Head(wd[w]) IN
     /\ wd' = [wd EXCEPT ![w] = Tail(@)]
     /\ CASE msg.t = "BATCH" ->
               /\ wst' = [wst EXCEPT ![w].q = @ \o msg.ts, ![w].receipt = msg.ts[1].id]
               /\ placed' = [i \in DOMAIN placed \cup {msg.ts[j].id : j \in 1..Len(msg.ts)} |->
                              (IF i \in DOMAIN placed THEN placed[i] ELSE 0) + (IF \E j \in 1..Len(msg.ts) : msg.ts[j].id = i THEN 1 ELSE 0)]
               /\ got' = got
          [] msg.t = "RESULT" ->        \* a leaf's result for the root task waiting here
               /\ got' = got + 1
               /\ wst' = IF (wst[w].root = "await1" /\ got + 1 = K1) \/ (wst[w].root = "await2" /\ got + 1 = K2)
                         THEN [wst EXCEPT ![w].q = Append(@, [id |-> 1, dest |-> Srv])] ELSE wst
               /\ placed' = placed
  /\ UNCHANGED <<wu, mu, md, memp, mst, semp, sidle, nextid, err, done>>

Leaves(n, first, w) == [j \in 1..n |-> [id |-> first + j - 1, dest |-> w]]
WorkerStep(w) ==      \* pop one ready task and run it to its next await / completion
  /\ wst[w].q # <<>>
  /\ LET t == Head(wst[w].q) rest == Tail(wst[w].q) IN
     IF t.id = 1 THEN      \* the root task
        CASE wst[w].root = "no" ->
               /\ wu' = [wu EXCEPT ![w] = Append(@, [t |-> "BATCH", ts |-> Leaves(K1, nextid, w)])]
               /\ wst' = [wst EXCEPT ![w].q = rest, ![w].root = "await1", ![w].pc = "top"] /\ nextid' = nextid + K1 /\ got' = 0
          [] wst[w].root = "await1" ->
               IF K2 = 0
               THEN /\ wu' = [wu EXCEPT ![w] = Append(@, [t |-> "RESULT", dest |-> Srv, by |-> w])]
                    /\ wst' = [wst EXCEPT ![w].q = rest, ![w].root = "done", ![w].pc = "top"] /\ UNCHANGED <<nextid, got>>
               ELSE /\ wu' = [wu EXCEPT ![w] = Append(@, [t |-> "BATCH", ts |-> Leaves(K2, nextid, w)])]
                    /\ wst' = [wst EXCEPT ![w].q = rest, ![w].root = "await2", ![w].pc = "top"] /\ nextid' = nextid + K2 /\ got' = 0
          [] wst[w].root = "await2" ->
               /\ wu' = [wu EXCEPT ![w] = Append(@, [t |-> "RESULT", dest |-> Srv, by |-> w])]
               /\ wst' = [wst EXCEPT ![w].q = rest, ![w].root = "done", ![w].pc = "top"] /\ UNCHANGED <<nextid, got>>
     ELSE \* a leaf completes: result to the worker that awaits it
        /\ IF t.dest = w
           THEN /\ wu' = [wu EXCEPT ![w] = Append(@, [t |-> "UPDATE", d |-> 0 - 1])]
                /\ got' = got + 1
                /\ wst' = IF (wst[w].root = "await1" /\ got + 1 = K1) \/ (wst[w].root = "await2" /\ got + 1 = K2)
                          THEN [wst EXCEPT ![w].q = Append(rest, [id |-> 1, dest |-> Srv]), ![w].pc = "top"]
                          ELSE [wst EXCEPT ![w].q = rest, ![w].pc = "top"]
           ELSE /\ wu' = [wu EXCEPT ![w] = Append(@, [t |-> "RESULT", dest |-> t.dest, by |-> w])]
                /\ got' = got /\ wst' = [wst EXCEPT ![w].q = rest, ![w].pc = "top"]
        /\ nextid' = nextid
  /\ UNCHANGED <<wd, mu, md, memp, mst, semp, sidle, placed, err, done>>

WorkerIdle(w) ==
  /\ wst[w].q = <<>> /\ wst[w].pc = "top"
  /\ wu' = [wu EXCEPT ![w] = Append(@, [t |-> "WAITING", n |-> 1, r |-> wst[w].receipt])]
  /\ wst' = [wst EXCEPT ![w].pc = "blocked"]
  /\ UNCHANGED <<wd, mu, md, memp, mst, semp, sidle, nextid, got, placed, err, done>>

Next == \/ ClientSubmit
        \/ \E m \in Mgr : ServerRecv(m) \/ ManagerRecvAbove(m)
        \/ \E m \in Mgr, i \in 1..NW : ManagerRecvBelow(m, i)
        \/ \E w \in Wkr : WorkerIn(w) \/ WorkerStep(w) \/ WorkerIdle(w)
Spec == Init /\ [][Next]_vars

\* ---- properties
NoError == err = "none"
ServerCountersInBounds == /\ sidle >= 0 /\ sidle <= Total
                          /\ \A m \in Mgr : semp[m].nt >= 0 /\ semp[m].idle >= 0 /\ semp[m].idle <= NW
ManagerCountersInBounds == \A m \in Mgr : /\ mst[m].idle >= 0 /\ mst[m].idle <= NW
                                          /\ \A i \in 1..NW : memp[m][i].nt >= 0 /\ memp[m][i].idle \in 0..1
PlacedOnce == \A i \in DOMAIN placed : placed[i] <= 1
Quiet == /\ \A w \in Wkr : wu[w] = <<>> /\ wd[w] = <<>> /\ wst[w].q = <<>> /\ wst[w].pc = "blocked"
         /\ \A m \in Mgr : mu[m] = <<>> /\ md[m] = <<>>
         /\ nextid > 1
Completes == Quiet => done
=============================================================================
