SPECIFICATION Spec
CONSTANTS NC = 2
 IDS = {"a", "b", "c"}
 Record = FALSE
INVARIANT NoCrash
INVARIANT RepliesConsistent
INVARIANT TablesConsistent
INVARIANT NoCancelledResidue
INVARIANT WaitingIsLive
CHECK_DEADLOCK FALSE
