------------------------------ MODULE Runtime ------------------------------
(* L2 - implementation-shaped specification of the BQSKit task runtime, flat topology
   (one server that manages NW workers directly, one compilation whose root task runs program RootFn).

   One action per critical section of the current code:
     ClientSubmit   detached.py handle_new_comp_task -> schedule_tasks
     ServerRecv(w)  base.py run loop / detached.py handle_message for a message from worker w
                    (SUBMIT, SUBMIT_BATCH -> assign_tasks + schedule_tasks; RESULT -> handle_result; UPDATE;
                     WAITING -> handle_waiting with the read-receipt correction; CANCEL -> broadcast; ERROR)
     WorkerIn(w)    worker.py recv_incoming for one message (SUBMIT_BATCH: delay all but one, start that one;
                    RESULT -> _handle_result under the mailbox lock; CANCEL -> _handle_cancel)
     StepTask(w)    worker.py _get_next_ready_task + _try_step_next_ready_task: pop a ready task, discard it if
                    cancelled, else resume it up to its next await / completion (submit, map, cancel, await, next
                    and _process_task_completion incl. cancelling unconsumed futures)
     StartDelayed(w) the "ready queue empty and delayed tasks present" branch
     GoIdle(w)      queue empty inside read_receipt_mutex: send WAITING(read receipt) and block
   Channels are per-direction FIFO queues.  assign_tasks is either fully nondeterministic within what the
   code allows (Policy = "any": idle workers first, in any order, the rest to a least-loaded worker, ties
   free) or the deterministic instance the replay harness pins (Policy = "det").

   With ClientCancels = TRUE the client does not wait for the result but cancels the compilation at an arbitrary
   moment (ClientCancel = detached.py handle_cancel_comp_task: the server forgets the compilation's mailbox and
   broadcasts CANCEL); the CANCEL may be handled before or after the RESULT of the finished root task that is already
   on its way - handle_result books the completion first and then drops the result of a forgotten mailbox.

   Properties (checked by TLC): RunAtMostOnce, NoErr, CountersInBounds, ClientAnswered, NoResidue,
   CountersAtRest (the last two are known to fail in the presence of cancellation - see DESIGN.md), and
   CountsExplained: when idle, each worker's task count equals the tasks it was sent minus the completions it reported
   (holds with cancellation too; what is left over is exactly what workers dropped without telling).
   Mut = "count-after-early-return" is a deliberately broken variant of handle_result (bookkeeping after the early
   return) used only to show that CountsExplained can fail.
   With Record = TRUE every action appends its name, its worker and a projection of the post-state to
   hist; behaviours printed by Dump are replayed into the real classes (harness/rtmodel.py). *)
EXTENDS Naturals, Integers, Sequences, FiniteSets, TLC, Json
CONSTANTS NW,          \* number of workers
          Prog,        \* function name -> sequence of instructions
          RootFn,
          Policy,      \* "any" | "det"
          ClientCancels, \* BOOLEAN: the client cancels at some moment instead of waiting for the result
          Mut,         \* "none" | "count-after-early-return"
          Record       \* BOOLEAN: keep the action history (simulation / replay) or not (exhaustive runs)
Workers == 0 .. NW-1
Server == -1
NoBox == -1
None == <<>>                          \* "no address"
RootAddr == <<Server, 0, 0>>

VARIABLES up, down,                   \* channels worker->server, server->worker
          emp, clientRes,             \* server: per worker [nt, idle, cache]; delivered result
          tasks, delayed, readyq, cancelled, mbox, ctr, receipt, mainpc,
          runs, errs,                 \* history: #starts per task address, errors
          hist                        \* action history (only when Record)
vars == <<up, down, emp, clientRes, tasks, delayed, readyq, cancelled, mbox, ctr, receipt, mainpc, runs, errs, hist>>

Task(fn, addr, crumbs) == [fn |-> fn, addr |-> addr, crumbs |-> crumbs]
Started(t) == [fn |-> t.fn, crumbs |-> t.crumbs, pc |-> 1, env |-> <<>>, desired |-> NoBox, won |-> FALSE, owned |-> {}]

SeqToSet(s) == {s[i] : i \in 1..Len(s)}
Send(ch, w, m) == [ch EXCEPT ![w] = Append(@, m)]

Init ==
  /\ up = [w \in Workers |-> <<>>] /\ down = [w \in Workers |-> <<>>]
  /\ emp = [w \in Workers |-> [nt |-> 0, idle |-> 1, cache |-> <<>>, fwd |-> 0, rep |-> 0]]   \* (fwd, rep: history - tasks sent to / completions heard from w)
  /\ clientRes = 0
  /\ tasks = [w \in Workers |-> <<>>]            \* function addr -> started record (as a TLA function with DOMAIN)
  /\ delayed = [w \in Workers |-> <<>>]
  /\ readyq = [w \in Workers |-> <<>>]
  /\ cancelled = [w \in Workers |-> {}]
  /\ mbox = [w \in Workers |-> <<>>]
  /\ ctr = [w \in Workers |-> 0]
  /\ receipt = [w \in Workers |-> None]
  /\ mainpc = [w \in Workers |-> "top"]
  /\ runs = <<>> /\ errs = {} /\ hist = <<>>

\* ---------- function-as-map helpers (maps with arbitrary domains)
Put(f, k, v) == [x \in DOMAIN f \cup {k} |-> IF x = k THEN v ELSE f[x]]
Del(f, k) == [x \in DOMAIN f \ {k} |-> f[x]]
Bump(f, k) == IF k \in DOMAIN f THEN [f EXCEPT ![k] = @ + 1] ELSE Put(f, k, 1)

\* ---------- server scheduling (assign_tasks): idle first, then least loaded
IdleSet == {w \in Workers : emp[w].idle > 0}
\* Assign a sequence of tasks; returns set of possible assignments (function Workers -> Seq(task))
RECURSIVE AssignRest(_, _, _)
AssignRest(ts, asg, load) ==
  IF ts = <<>> THEN {asg}
  ELSE LET m == CHOOSE x \in {load[w] : w \in Workers} : \A w \in Workers : x <= load[w]
           cands == IF Policy = "det" THEN {CHOOSE w \in Workers : load[w] = m /\ \A v \in Workers : load[v] = m => w <= v}
                    ELSE {w \in Workers : load[w] = m}
       IN UNION { AssignRest(SubSeq(ts, 1, Len(ts)-1),
                             [asg EXCEPT ![w] = Append(@, ts[Len(ts)])],
                             [load EXCEPT ![w] = @ + 1]) : w \in cands }
RECURSIVE AssignIdle(_, _, _)
AssignIdle(ts, idle, asg) ==
  IF ts = <<>> \/ idle = {} THEN {<<ts, asg>>}
  ELSE UNION { AssignIdle(Tail(ts), idle \ {w}, [asg EXCEPT ![w] = Append(@, Head(ts))]) :
               w \in (IF Policy = "det" THEN {CHOOSE x \in idle : \A y \in idle : x <= y} ELSE idle) }
Assignments(ts) ==
  LET empty == [w \in Workers |-> <<>>]
  IN UNION { AssignRest(p[1], p[2], [w \in Workers |-> emp[w].nt + Len(p[2][w])]) : p \in AssignIdle(ts, IdleSet, empty) }

Schedule(ts, asg) ==   \* effect on down, emp
  /\ down' = [w \in Workers |-> IF asg[w] = <<>> THEN down[w] ELSE Append(down[w], [t |-> "BATCH", ts |-> asg[w]])]
  /\ emp' = [w \in Workers |-> IF asg[w] = <<>> THEN emp[w]
               ELSE [nt |-> emp[w].nt + Len(asg[w]),
                     idle |-> emp[w].idle - (IF emp[w].idle < Len(asg[w]) THEN emp[w].idle ELSE Len(asg[w])),
                     cache |-> Append(emp[w].cache, <<asg[w][1].addr, Len(asg[w])>>),
                     fwd |-> emp[w].fwd + Len(asg[w]), rep |-> emp[w].rep]]

ClientSubmit ==
  /\ clientRes = 0 /\ runs = <<>> /\ \A w \in Workers : down[w] = <<>> /\ emp[w].nt = 0
  /\ \E asg \in Assignments(<<Task(RootFn, RootAddr, <<>>)>>) : Schedule(<<>>, asg)
  /\ runs' = Put(runs, RootAddr, 0)
  /\ UNCHANGED <<up, clientRes, tasks, delayed, readyq, cancelled, mbox, ctr, receipt, mainpc, errs>>

\* the client gives up: handle_cancel_comp_task forgets the compilation (its mailbox) and broadcasts CANCEL for the root task
Cancelled == 0 - 1
ClientCancel ==
  /\ ClientCancels /\ runs # <<>> /\ clientRes = 0
  /\ clientRes' = Cancelled
  /\ down' = [v \in Workers |-> Append(down[v], [t |-> "CANCEL", addr |-> RootAddr])]
  /\ UNCHANGED <<up, emp, tasks, delayed, readyq, cancelled, mbox, ctr, receipt, mainpc, runs, errs>>

SentSince(cache, r) ==
  IF r = None THEN [n |-> 0, c |-> cache]   \* placeholder, fixed below
  ELSE [n |-> 0, c |-> cache]
RECURSIVE SumCounts(_)
SumCounts(c) == IF c = <<>> THEN 0 ELSE c[1][2] + SumCounts(Tail(c))
RECURSIVE DropUntil(_, _)
DropUntil(c, r) == IF c = <<>> THEN <<>> ELSE IF c[1][1] = r THEN c ELSE DropUntil(Tail(c), r)

ServerRecv(w) ==
  /\ up[w] # <<>>
  /\ LET m == Head(up[w]) IN
     /\ up' = [up EXCEPT ![w] = Tail(@)]
     /\ CASE m.t = "SUBMIT" ->
               /\ \E asg \in Assignments(m.ts) : Schedule(m.ts, asg)
               /\ UNCHANGED <<clientRes, errs>>
          [] m.t = "RESULT" ->
               /\ IF m.addr[1] = Server
                    THEN /\ clientRes' = IF clientRes = Cancelled THEN clientRes ELSE m.val     \* the mailbox of a cancelled compilation is gone
                         /\ down' = down
                    ELSE /\ clientRes' = clientRes
                         /\ down' = Send(down, m.addr[1], [t |-> "RESULT", addr |-> m.addr, val |-> m.val])
               /\ emp' = [emp EXCEPT ![m.by].nt = IF Mut = "count-after-early-return" /\ m.addr[1] = Server /\ clientRes = Cancelled THEN @ ELSE @ - 1,
                                      ![m.by].rep = @ + 1]
               /\ UNCHANGED errs
          [] m.t = "UPDATE" -> /\ emp' = [emp EXCEPT ![w].nt = @ + m.d, ![w].rep = @ + 1] /\ UNCHANGED <<down, clientRes, errs>>
          [] m.t = "WAITING" ->
               /\ LET c2 == IF m.r = None THEN emp[w].cache ELSE DropUntil(emp[w].cache, m.r)
                      unacc == IF m.r = None THEN SumCounts(c2) ELSE SumCounts(Tail(c2))
                      adj == IF 1 - unacc > 0 THEN 1 - unacc ELSE 0
                  IN emp' = [emp EXCEPT ![w].idle = adj, ![w].cache = c2]
               /\ UNCHANGED <<down, clientRes, errs>>
          [] m.t = "ERROR" -> /\ errs' = errs \cup {m.e} /\ UNCHANGED <<down, emp, clientRes>>
          [] m.t = "CANCEL" -> /\ down' = [v \in Workers |-> Append(down[v], [t |-> "CANCEL", addr |-> m.addr])]
                               /\ UNCHANGED <<emp, clientRes, errs>>
  /\ UNCHANGED <<tasks, delayed, readyq, cancelled, mbox, ctr, receipt, mainpc, runs>>

\* ---------- worker incoming thread
AddTask(w, t, tk, rq) == <<Put(tk, t.addr, Started(t)), Append(rq, t.addr)>>
BoxReady(b) == Cardinality(b.got) >= b.expected /\ b.got # {}

WorkerIn(w) ==
  /\ down[w] # <<>>
  /\ LET m == Head(down[w]) IN
     /\ down' = [down EXCEPT ![w] = Tail(@)]
     /\ CASE m.t = "BATCH" ->
               LET last == m.ts[Len(m.ts)]
                   r == AddTask(w, last, tasks[w], readyq[w])
               IN /\ receipt' = [receipt EXCEPT ![w] = m.ts[1].addr]
                  /\ tasks' = [tasks EXCEPT ![w] = r[1]]
                  /\ readyq' = [readyq EXCEPT ![w] = r[2]]
                  /\ delayed' = [delayed EXCEPT ![w] = @ \o SubSeq(m.ts, 1, Len(m.ts)-1)]
                  /\ UNCHANGED <<mbox>>
          [] m.t = "RESULT" ->
               LET id == m.addr[2] IN
               IF id \notin DOMAIN mbox[w] THEN UNCHANGED <<receipt, tasks, readyq, delayed, mbox>>
               ELSE LET b0 == mbox[w][id]
                        b1 == [b0 EXCEPT !.got = @ \cup {m.addr[3]}, !.vals = Put(@, m.addr[3], m.val), !.fresh = Append(@, m.addr[3])]
                        wake == b1.dest # None /\ (tasks[w][b1.dest].won \/ BoxReady(b1))
                    IN /\ mbox' = [mbox EXCEPT ![w] = Put(@, id, IF wake THEN [b1 EXCEPT !.dest = None] ELSE b1)]
                       /\ readyq' = [readyq EXCEPT ![w] = IF wake THEN Append(@, b1.dest) ELSE @]
                       /\ UNCHANGED <<receipt, tasks, delayed>>
          [] m.t = "CANCEL" ->
               LET dead == {a \in DOMAIN tasks[w] : a = m.addr \/ m.addr \in SeqToSet(tasks[w][a].crumbs)}
                   boxes == UNION {tasks[w][a].owned : a \in dead}
               IN /\ tasks' = [tasks EXCEPT ![w] = [a \in DOMAIN tasks[w] \ dead |-> tasks[w][a]]]
                  /\ mbox' = [mbox EXCEPT ![w] = [i \in DOMAIN mbox[w] \ boxes |-> mbox[w][i]]]
                  /\ delayed' = [delayed EXCEPT ![w] = SelectSeq(@, LAMBDA t : ~(t.addr = m.addr \/ m.addr \in SeqToSet(t.crumbs)))]
                  /\ UNCHANGED <<receipt, readyq>>
  /\ cancelled' = [cancelled EXCEPT ![w] = IF Head(down[w]).t = "CANCEL" THEN @ \cup {Head(down[w]).addr} ELSE @]
  /\ UNCHANGED <<up, emp, clientRes, ctr, mainpc, runs, errs>>

\* ---------- worker main thread
\* run instructions of task a on worker w starting from state (tk, mb, c, upq, rq) until it pauses or ends
RECURSIVE Run(_, _, _, _, _, _, _)
Run(w, a, tk, mb, c, upq, rq) ==
  LET t == tk[a]
      ins == Prog[t.fn][t.pc]
      crumbs == Append(t.crumbs, a)
  IN
  CASE ins[1] = "submit" ->
         LET id == c
             child == Task(ins[3], <<w, id, 0>>, crumbs)
             t2 == [t EXCEPT !.pc = @ + 1, !.env = Put(@, ins[2], id), !.owned = @ \cup {id}]
         IN Run(w, a, Put(tk, a, t2), Put(mb, id, [single |-> TRUE, expected |-> 1, got |-> {}, vals |-> <<>>, dest |-> None, fresh |-> <<>>]),
                c + 1, Append(upq, [t |-> "SUBMIT", ts |-> <<child>>]), rq)
    [] ins[1] = "map" ->
         LET id == c
             kids == [i \in 1..ins[4] |-> Task(ins[3], <<w, id, i-1>>, crumbs)]
             t2 == [t EXCEPT !.pc = @ + 1, !.env = Put(@, ins[2], id), !.owned = @ \cup {id}]
         IN Run(w, a, Put(tk, a, t2), Put(mb, id, [single |-> FALSE, expected |-> ins[4], got |-> {}, vals |-> <<>>, dest |-> None, fresh |-> <<>>]),
                c + 1, Append(upq, [t |-> "SUBMIT", ts |-> kids]), rq)
    [] ins[1] \in {"await", "next"} ->
         LET id == t.env[ins[2]] IN
         IF id \notin DOMAIN mb
         THEN [tk |-> tk, mb |-> mb, c |-> c, upq |-> upq, rq |-> rq, done |-> FALSE, val |-> -1]   \* RuntimeError: awaiting a cancelled future
         ELSE
         LET b == mb[id]
             t2 == [t EXCEPT !.pc = @ + 1, !.desired = id, !.won = (ins[1] = "next")]
         IN [tk |-> Put(tk, a, t2), mb |-> Put(mb, id, [b EXCEPT !.dest = a]), c |-> c, upq |-> upq,
             rq |-> IF BoxReady(b) THEN Append(rq, a) ELSE rq, done |-> FALSE, val |-> 0]
    [] ins[1] = "cancel" ->
         LET id == t.env[ins[2]]
             n == mb[id].expected
             t2 == [t EXCEPT !.pc = @ + 1, !.owned = @ \ {id}]
         IN Run(w, a, Put(tk, a, t2), Del(mb, id), c,
                upq \o [i \in 1..n |-> [t |-> "CANCEL", addr |-> <<w, id, i-1>>]], rq)
    [] ins[1] = "ret" ->
         [tk |-> tk, mb |-> mb, c |-> c, upq |-> upq, rq |-> rq, done |-> TRUE, val |-> ins[2]]

\* value of a task = its fn name plus the values it awaited (kept abstract: just fn)
StepTask(w) ==
  /\ readyq[w] # <<>> /\ mainpc' = [mainpc EXCEPT ![w] = "top"]
  /\ LET a == Head(readyq[w]) rq0 == Tail(readyq[w]) IN
     IF a \in cancelled[w] \/ a \notin DOMAIN tasks[w] \/ (SeqToSet(tasks[w][a].crumbs) \cap cancelled[w]) # {}
     THEN /\ readyq' = [readyq EXCEPT ![w] = rq0]
          /\ tasks' = [tasks EXCEPT ![w] = IF a \in DOMAIN @ THEN Del(@, a) ELSE @]     \* a discarded task is forgotten
          /\ UNCHANGED <<up, mbox, ctr, runs, errs>>
     ELSE
       LET t == tasks[w][a]
           bad == t.desired # NoBox /\ (t.desired \notin DOMAIN mbox[w] \/ (~t.won /\ ~BoxReady(mbox[w][t.desired])))
       IN IF bad THEN /\ errs' = errs \cup {"AssertionError"} /\ readyq' = [readyq EXCEPT ![w] = rq0]
                      /\ UNCHANGED <<up, tasks, mbox, ctr, runs>>
          ELSE
          LET mb1 == IF t.desired # NoBox /\ ~t.won THEN Del(mbox[w], t.desired)
                     ELSE IF t.desired # NoBox THEN [mbox[w] EXCEPT ![t.desired].fresh = <<>>] ELSE mbox[w]
              t1 == [t EXCEPT !.desired = NoBox, !.won = FALSE, !.owned = IF t.desired # NoBox /\ ~t.won THEN @ \ {t.desired} ELSE @]
              r == Run(w, a, Put(tasks[w], a, t1), mb1, ctr[w], <<>>, rq0)
          IN /\ runs' = IF t.pc = 1 THEN Bump(runs, a) ELSE runs
             /\ errs' = IF ~r.done /\ r.val = -1 THEN errs \cup {"AwaitCancelled"} ELSE errs
             /\ ctr' = [ctr EXCEPT ![w] = r.c]
             /\ IF ~r.done
                THEN /\ tasks' = [tasks EXCEPT ![w] = r.tk] /\ mbox' = [mbox EXCEPT ![w] = r.mb]
                     /\ readyq' = [readyq EXCEPT ![w] = r.rq]
                     /\ up' = [up EXCEPT ![w] = @ \o r.upq]
                ELSE \* completion
                     LET local == a[1] = w
                         res == [t |-> "RESULT", addr |-> a, val |-> r.val, by |-> w]
                         id == a[2]
                         b0 == IF local /\ id \in DOMAIN r.mb THEN r.mb[id] ELSE [dest |-> None]
                         b1 == IF local /\ id \in DOMAIN r.mb
                               THEN [b0 EXCEPT !.got = @ \cup {a[3]}, !.vals = Put(@, a[3], r.val), !.fresh = Append(@, a[3])] ELSE b0
                         wake == local /\ id \in DOMAIN r.mb /\ b1.dest # None /\ (r.tk[b1.dest].won \/ BoxReady(b1))
                         owned == r.tk[a].owned
                         mbA == IF local /\ id \in DOMAIN r.mb THEN Put(r.mb, id, IF wake THEN [b1 EXCEPT !.dest = None] ELSE b1) ELSE r.mb
                         mbB == [i \in DOMAIN mbA \ owned |-> mbA[i]]
                         RECURSIVE Cancels(_)
                         Cancels(S) == IF S = {} THEN <<>> ELSE LET i == CHOOSE x \in S : TRUE IN
                                         (IF i \in DOMAIN mbA /\ ~BoxReady(mbA[i]) THEN [j \in 1..mbA[i].expected |-> [t |-> "CANCEL", addr |-> <<w, i, j-1>>]] ELSE <<>>) \o Cancels(S \ {i})
                     IN /\ tasks' = [tasks EXCEPT ![w] = Del(r.tk, a)]
                        /\ mbox' = [mbox EXCEPT ![w] = mbB]
                        /\ readyq' = [readyq EXCEPT ![w] = IF wake THEN Append(r.rq, b1.dest) ELSE r.rq]
                        /\ up' = [up EXCEPT ![w] = ((@ \o r.upq) \o <<IF local THEN [t |-> "UPDATE", d |-> -1] ELSE res>>) \o Cancels(owned)]
  /\ UNCHANGED <<down, emp, clientRes, delayed, cancelled, receipt>>

StartDelayed(w) ==
  /\ mainpc[w] = "top" /\ readyq[w] = <<>> /\ delayed[w] # <<>>
  /\ LET t == delayed[w][Len(delayed[w])]
         r == AddTask(w, t, tasks[w], readyq[w])
     IN /\ tasks' = [tasks EXCEPT ![w] = r[1]] /\ readyq' = [readyq EXCEPT ![w] = r[2]]
        /\ delayed' = [delayed EXCEPT ![w] = SubSeq(@, 1, Len(@)-1)]
  /\ UNCHANGED <<up, down, emp, clientRes, cancelled, mbox, ctr, receipt, mainpc, runs, errs>>

GoIdle(w) ==
  /\ mainpc[w] = "top" /\ readyq[w] = <<>> /\ delayed[w] = <<>>
  /\ up' = Send(up, w, [t |-> "WAITING", r |-> receipt[w]])
  /\ mainpc' = [mainpc EXCEPT ![w] = "blocked"]
  /\ UNCHANGED <<down, emp, clientRes, tasks, delayed, readyq, cancelled, mbox, ctr, receipt, runs, errs>>

Proj == [rq |-> [w \in Workers |-> Len(readyq'[w])], dl |-> [w \in Workers |-> Len(delayed'[w])],
         nt |-> [w \in Workers |-> Cardinality(DOMAIN tasks'[w])], nb |-> [w \in Workers |-> Cardinality(DOMAIN mbox'[w])],
         up |-> [w \in Workers |-> Len(up'[w])], dn |-> [w \in Workers |-> Len(down'[w])],
         ent |-> [w \in Workers |-> emp'[w].nt], eid |-> [w \in Workers |-> emp'[w].idle],
         pc |-> [w \in Workers |-> mainpc'[w]], res |-> clientRes']
Act(name, w) == hist' = IF Record THEN Append(hist, [a |-> name, w |-> w, p |-> Proj]) ELSE hist
Next == \/ (ClientSubmit /\ Act("ClientSubmit", 0))
        \/ (ClientCancel /\ Act("ClientCancel", 0))
        \/ \E w \in Workers : \/ (ServerRecv(w) /\ Act("ServerRecv", w))
                               \/ (WorkerIn(w) /\ Act("WorkerIn", w))
                               \/ (StepTask(w) /\ Act("StepTask", w))
                               \/ (StartDelayed(w) /\ Act("StartDelayed", w))
                               \/ (GoIdle(w) /\ Act("GoIdle", w))
Spec == Init /\ [][Next]_vars

\* ---------- properties
RunAtMostOnce == \A a \in DOMAIN runs : runs[a] <= 1
NoErr == errs = {}
CountersInBounds == \A w \in Workers : emp[w].nt >= 0 /\ emp[w].idle \in 0..1
Quiescent == /\ \A w \in Workers : up[w] = <<>> /\ down[w] = <<>> /\ readyq[w] = <<>> /\ delayed[w] = <<>> /\ mainpc[w] = "blocked"
             /\ runs # <<>>
QuiescentGood == Quiescent => /\ clientRes # 0 /\ \A w \in Workers : tasks[w] = <<>> /\ mbox[w] = <<>> /\ emp[w].nt = 0 /\ emp[w].idle = 1
NoResidue == Quiescent => \A w \in Workers : tasks[w] = <<>> /\ mbox[w] = <<>>
CountersAtRest == Quiescent => \A w \in Workers : emp[w].nt = 0 /\ emp[w].idle = 1
ClientAnswered == Quiescent => (clientRes # 0 \/ ClientCancels)
\* the bookkeeping statement that survives cancellation: what a worker was sent minus what it reported
CountsExplained == Quiescent => \A w \in Workers : emp[w].nt = emp[w].fwd - emp[w].rep
\* simulation mode: print the action history of every behaviour that reaches the idle state
Dump == IF Record /\ Quiescent THEN PrintT(<<"BEHAVIOUR", ToJson(hist)>>) ELSE TRUE
=============================================================================
