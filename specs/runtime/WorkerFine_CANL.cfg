SPECIFICATION FairSpec
CONSTANTS
 Prog <- P_CANL
 Place <- PlaceLocal
 RootFn = "root"
 EnvCancelRoot = FALSE
 MailboxLocked = TRUE
 RegisterIfNotReady = TRUE
 DelayBeforeStart = TRUE
 CancelInPlace = TRUE
 ForgetDiscarded = TRUE
 TolerantCompletion = TRUE
 DropLateBoxes = FALSE
 Record = FALSE
INVARIANT NoDoubleWake
INVARIANT QueuedOnce
INVARIANT WokenNotRegistered
INVARIANT NoLostWake
INVARIANT NoHang
INVARIANT WaitingOK
INVARIANT RunAtMostOnce
INVARIANT NoStartAfterCancel
INVARIANT NoResidue
INVARIANT NoErr
INVARIANT OrphanHasNoWaiter
INVARIANT LockDiscipline
PROPERTY Finishes
CHECK_DEADLOCK TRUE
