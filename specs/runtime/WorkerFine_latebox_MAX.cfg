SPECIFICATION Spec
CONSTANTS
 Prog <- P_MA
 Place <- PlaceAny
 RootFn = "root"
 EnvCancelRoot = TRUE
 MailboxLocked = TRUE
 RegisterIfNotReady = TRUE
 DelayBeforeStart = TRUE
 CancelInPlace = TRUE
 ForgetDiscarded = TRUE
 TolerantCompletion = TRUE
 DropLateBoxes = FALSE
 Record = FALSE
INVARIANT NoLateBox
CHECK_DEADLOCK FALSE
