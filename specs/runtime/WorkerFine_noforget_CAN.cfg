SPECIFICATION Spec
CONSTANTS
 Prog <- P_CAN
 Place <- PlaceAny
 RootFn = "root"
 EnvCancelRoot = FALSE
 MailboxLocked = TRUE
 RegisterIfNotReady = TRUE
 DelayBeforeStart = TRUE
 CancelInPlace = TRUE
 ForgetDiscarded = FALSE
 TolerantCompletion = TRUE
 DropLateBoxes = FALSE
 Record = FALSE
INVARIANT NoResidue
CHECK_DEADLOCK FALSE
