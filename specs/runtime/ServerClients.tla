--------------------------- MODULE ServerClients ---------------------------
(* L2 - the client-facing half of DetachedServer (bqskit/runtime/detached.py), for C13 / C12.

   NC clients, each with a strictly request/reply connection, talk to one server.  A client may,
   whenever it is not waiting for a reply: submit a new compilation (ids are drawn from a finite pool,
   standing for uuids), ask for the status or the result of ANY id (its own, another client's, or one
   never submitted = "unknown"), cancel ANY id, or disconnect.  The compute side is abstracted: a
   running compilation may at any time deliver its RESULT to the server or report an ERROR.

   One action per handler, as the code is written today:
     Submit      handle_new_comp_task      Request  handle_request        Status  handle_status
     Cancel      handle_message/CANCEL + handle_cancel_comp_task            Disconnect handle_disconnect
     ResultIn    handle_result (for the client)                             ErrorIn handle_error
   A table lookup that would raise KeyError in the code sets `crashed` (the server loop turns any
   exception into a system-wide shutdown), so "no request takes the server down" is the invariant
   ~crashed.  Replies are appended to the client's reply channel; `truth` is the ground-truth state
   machine of each compilation, against which every reply is judged when it is produced.

   The compute side may report an ERROR for a compilation whose root RESULT has already arrived
   (a descendant nobody awaited raised: fire-and-forget submit, early return from a next() loop):
   ErrorIn is enabled in state "done" too, before or after the result was shipped to the client.
   The rows of tasks / mailbox_to_task_dict are kept after delivery exactly so that such late
   messages still find their client; an error dropped although its compilation is not cancelled and
   its owner is connected is the bad reply "raised-error-never-reported".
   A client may disconnect while it owns finished compilations whose result it never requested;
   NoOrphanMailbox says that no mailbox survives its task row.

   Mut selects a deliberately broken variant of one handler (used only to show that the invariants
   can fail: specs/runtime/ServerClients_mut_*.cfg); "none" is the code as it is. *)
EXTENDS Naturals, Integers, Sequences, FiniteSets, TLC, Json

CONSTANTS NC,          \* number of clients
          IDS,         \* pool of task ids (uuids); one extra value "U" in requests stands for an id never submitted
          Record,      \* BOOLEAN: keep history for replay
          Mut          \* "none" | "skip-ready-on-disconnect" | "error-needs-mailbox"
Clients == 1..NC
None == "-"

VARIABLES sclients,    \* server: client -> set of active ids (self.clients[conn]); absent after disconnect
          tasks,       \* server: id -> [mb, c]  (self.tasks)
          mboxes,      \* server: mb -> [ready, waiting] (self.mailboxes)
          mb2id,       \* server: mb -> id (self.mailbox_to_task_dict)
          ctr,         \* mailbox counter
          replies,     \* client -> sequence of replies not yet read
          waiting,     \* client -> the request it waits on (or None)
          conn,        \* client -> "open" | "closed"
          truth,       \* id -> [s |-> "absent"|"running"|"done"|"failed"|"cancelled", owner, delivered]
          crashed,     \* a handler raised
          badreply,    \* a reply inconsistent with truth was produced: name of the clause
          hist
vars == <<sclients, tasks, mboxes, mb2id, ctr, replies, waiting, conn, truth, crashed, badreply, hist>>

Put(f, k, v) == [x \in DOMAIN f \cup {k} |-> IF x = k THEN v ELSE f[x]]
Del(f, k) == [x \in DOMAIN f \ {k} |-> f[x]]
Connected(c) == c \in DOMAIN sclients

Init == /\ sclients = [c \in Clients |-> {}] /\ tasks = <<>> /\ mboxes = <<>> /\ mb2id = <<>> /\ ctr = 0
        /\ replies = [c \in Clients |-> <<>>] /\ waiting = [c \in Clients |-> None] /\ conn = [c \in Clients |-> "open"]
        /\ truth = [i \in IDS |-> [s |-> "absent", owner |-> 0, delivered |-> FALSE, mb |-> 0 - 1, reported |-> FALSE, erred |-> FALSE]]
        /\ crashed = FALSE /\ badreply = "none" /\ hist = <<>>

Reply(c, r) == replies' = [replies EXCEPT ![c] = Append(@, r)]
\* the Compiler API is synchronous: a client issues a request only after it has consumed every reply
CanAsk(c) == conn[c] = "open" /\ waiting[c] = None /\ replies[c] = <<>> /\ ~crashed

\* ---- requests (the handler runs atomically with the request's arrival: the server is single-threaded)
Submit(c, i) ==
  /\ CanAsk(c) /\ truth[i].s = "absent"
  /\ IF ~Connected(c) THEN crashed' = TRUE /\ UNCHANGED <<sclients, tasks, mboxes, mb2id, ctr, truth>>
     ELSE /\ tasks' = Put(tasks, i, [mb |-> ctr, c |-> c]) /\ mb2id' = Put(mb2id, ctr, i)
          /\ mboxes' = Put(mboxes, ctr, [ready |-> FALSE, waiting |-> FALSE]) /\ ctr' = ctr + 1
          /\ sclients' = [sclients EXCEPT ![c] = @ \cup {i}]
          /\ truth' = [truth EXCEPT ![i] = [s |-> "running", owner |-> c, delivered |-> FALSE, mb |-> ctr, reported |-> FALSE, erred |-> FALSE]]
          /\ crashed' = crashed
  /\ UNCHANGED <<replies, waiting, conn, badreply>>         \* submit is not acknowledged

Known(c, i) == i \in IDS /\ Connected(c) /\ i \in sclients[c] /\ i \in DOMAIN tasks

DropClient(c, sc, tk, mbx, m2i) ==
  \* handle_disconnect: cancel the client's active tasks, then forget every row that points at this connection
  LET all == IF c \in DOMAIN sc THEN sc[c] ELSE {}
      \* (Mut: "only compilations that are still running need cancelling")
      act == IF Mut = "skip-ready-on-disconnect" THEN {i \in all : i \in DOMAIN tk /\ tk[i].mb \in DOMAIN mbx /\ ~mbx[tk[i].mb].ready} ELSE all
      tk1 == [i \in DOMAIN tk \ act |-> tk[i]]
      mbs == {tk[i].mb : i \in act \cap DOMAIN tk}
      gone == {i \in DOMAIN tk1 : tk1[i].c = c}
  IN [sc |-> [x \in DOMAIN sc \ {c} |-> sc[x]],
      tk |-> [i \in DOMAIN tk1 \ gone |-> tk1[i]],
      mbx |-> [m \in DOMAIN mbx \ mbs |-> mbx[m]],
      m2i |-> [m \in DOMAIN m2i \ (mbs \cup {tk1[i].mb : i \in gone}) |-> m2i[m]],
      cancelled |-> all]

Request(c, i) ==      \* result(id)
  /\ CanAsk(c)
  /\ IF ~Connected(c) THEN crashed' = TRUE /\ UNCHANGED <<sclients, tasks, mboxes, mb2id, replies, waiting, conn, truth, badreply>>
     ELSE IF ~Known(c, i)
     THEN \* "Unknown task." and the bad client is disconnected
          LET d == DropClient(c, sclients, tasks, mboxes, mb2id) IN
          /\ sclients' = d.sc /\ tasks' = d.tk /\ mboxes' = d.mbx /\ mb2id' = d.m2i
          /\ truth' = [j \in IDS |-> IF j \in d.cancelled /\ truth[j].s \in {"running", "done"} /\ ~truth[j].delivered
                                    THEN [truth[j] EXCEPT !.s = "cancelled"] ELSE truth[j]]
          /\ conn' = [conn EXCEPT ![c] = "closed"] /\ waiting' = waiting /\ replies' = replies
          /\ badreply' = IF i \in IDS /\ truth[i].owner = c /\ truth[i].s \in {"running", "done"} /\ ~truth[i].delivered
                         THEN "live-task-refused" ELSE badreply
          /\ crashed' = crashed
     ELSE LET mb == tasks[i].mb IN
          IF mb \notin DOMAIN mboxes THEN crashed' = TRUE /\ UNCHANGED <<sclients, tasks, mboxes, mb2id, replies, waiting, conn, truth, badreply>>
          ELSE IF mboxes[mb].ready
          THEN /\ Reply(c, [k |-> "RESULT", i |-> i]) /\ mboxes' = Del(mboxes, mb)
               /\ sclients' = [sclients EXCEPT ![c] = @ \ {i}]
               /\ truth' = [truth EXCEPT ![i].delivered = TRUE]
               /\ badreply' = IF truth[i].s # "done" \/ truth[i].owner # c THEN "client-got-foreign-result" ELSE badreply
               /\ UNCHANGED <<tasks, mb2id, waiting, conn, crashed>>
          ELSE /\ mboxes' = [mboxes EXCEPT ![mb].waiting = TRUE] /\ waiting' = [waiting EXCEPT ![c] = i]
               /\ UNCHANGED <<sclients, tasks, mb2id, replies, conn, truth, badreply, crashed>>
  /\ UNCHANGED ctr

StatusOf(c, i) ==
  IF ~Known(c, i) THEN "UNKNOWN" ELSE IF mboxes[tasks[i].mb].ready THEN "DONE" ELSE "RUNNING"
Status(c, i) ==
  /\ CanAsk(c)
  /\ IF ~Connected(c) \/ (Known(c, i) /\ tasks[i].mb \notin DOMAIN mboxes)
     THEN crashed' = TRUE /\ UNCHANGED <<replies, badreply>>
     ELSE LET s == StatusOf(c, i) IN
          /\ Reply(c, [k |-> "STATUS", i |-> s]) /\ crashed' = crashed
          /\ badreply' = IF \/ (s # "UNKNOWN" /\ (i \notin IDS \/ truth[i].owner # c))
                            \/ (s = "DONE" /\ truth[i].s # "done")
                            \* (after a failure the ERROR is already queued ahead of this reply: the client learns of it first)
                            \/ (s = "RUNNING" /\ (truth[i].s \notin {"running", "failed"} \/ truth[i].delivered))
                            \/ (s = "UNKNOWN" /\ i \in IDS /\ truth[i].owner = c /\ truth[i].s = "running")
                         THEN "status-inconsistent" ELSE badreply
  /\ UNCHANGED <<sclients, tasks, mboxes, mb2id, ctr, waiting, conn, truth>>

Cancel(c, i) ==
  /\ CanAsk(c)
  /\ IF ~Connected(c) THEN crashed' = TRUE /\ UNCHANGED <<sclients, tasks, mboxes, mb2id, replies, truth>>
     ELSE IF Known(c, i)
     THEN IF tasks[i].mb \notin DOMAIN mboxes THEN crashed' = TRUE /\ UNCHANGED <<sclients, tasks, mboxes, mb2id, replies, truth>>
          ELSE /\ mboxes' = Del(mboxes, tasks[i].mb) /\ mb2id' = Del(mb2id, tasks[i].mb) /\ tasks' = Del(tasks, i)
               /\ sclients' = [sclients EXCEPT ![c] = @ \ {i}]
               /\ truth' = [truth EXCEPT ![i].s = "cancelled"]
               /\ Reply(c, [k |-> "CANCEL", i |-> i]) /\ crashed' = crashed
     ELSE /\ Reply(c, [k |-> "CANCEL", i |-> i]) /\ crashed' = crashed      \* nothing (left) to cancel for this client
          /\ UNCHANGED <<sclients, tasks, mboxes, mb2id, truth>>
  /\ UNCHANGED <<ctr, waiting, conn, badreply>>

Disconnect(c) ==
  /\ CanAsk(c) /\ Connected(c)
  /\ LET d == DropClient(c, sclients, tasks, mboxes, mb2id) IN
     /\ sclients' = d.sc /\ tasks' = d.tk /\ mboxes' = d.mbx /\ mb2id' = d.m2i
     /\ truth' = [j \in IDS |-> IF j \in d.cancelled /\ truth[j].s \in {"running", "done"} /\ ~truth[j].delivered
                               THEN [truth[j] EXCEPT !.s = "cancelled"] ELSE truth[j]]
  /\ conn' = [conn EXCEPT ![c] = "closed"]
  /\ UNCHANGED <<ctr, replies, waiting, crashed, badreply>>

\* ---- the compute side reports
ResultIn(i) ==      \* handle_result for a compilation's root task
  /\ ~crashed /\ truth[i].s \in {"running", "cancelled"} /\ ~truth[i].reported
  /\ LET mb == truth[i].mb IN
     IF mb \notin DOMAIN mboxes
     THEN /\ truth' = [truth EXCEPT ![i].reported = TRUE]                       \* silently discarded (cancelled)
          /\ UNCHANGED <<sclients, mboxes, replies, waiting, crashed, badreply>>
     ELSE IF mb \notin DOMAIN mb2id \/ mb2id[mb] \notin DOMAIN tasks
     THEN crashed' = TRUE /\ UNCHANGED <<sclients, mboxes, replies, waiting, truth, badreply>>
     ELSE LET c == tasks[mb2id[mb]].c IN
          /\ truth' = [truth EXCEPT ![i].reported = TRUE, ![i].s = IF @ = "running" THEN "done" ELSE @,
                                    ![i].delivered = mboxes[mb].waiting]
          /\ IF mboxes[mb].waiting
             THEN IF c \notin DOMAIN sclients THEN crashed' = TRUE /\ UNCHANGED <<sclients, mboxes, replies, waiting, badreply>>
                  ELSE /\ Reply(c, [k |-> "RESULT", i |-> i]) /\ mboxes' = Del(mboxes, mb)
                       /\ sclients' = [sclients EXCEPT ![c] = @ \ {i}]
                       /\ waiting' = [waiting EXCEPT ![c] = None]
                       /\ badreply' = IF truth[i].owner # c THEN "client-got-foreign-result"
                                      ELSE IF truth[i].s = "cancelled" THEN "cancelled-result-delivered" ELSE badreply
                       /\ crashed' = crashed
             ELSE /\ mboxes' = [mboxes EXCEPT ![mb].ready = TRUE]
                  /\ UNCHANGED <<sclients, replies, waiting, crashed, badreply>>
  /\ UNCHANGED <<tasks, mb2id, ctr, conn>>

ErrorIn(i) ==       \* handle_error: an exception of some task of compilation i (possibly after its root's RESULT: state "done")
  /\ ~crashed /\ truth[i].s \in {"running", "cancelled", "done"} /\ ~truth[i].erred /\ (truth[i].s = "done" \/ ~truth[i].reported)
  /\ LET mb == truth[i].mb
         known == IF Mut = "error-needs-mailbox" THEN mb \in DOMAIN mboxes ELSE mb \in DOMAIN mb2id
         own == truth[i].owner
     IN
     IF ~known
     THEN /\ truth' = [truth EXCEPT ![i].reported = TRUE, ![i].erred = TRUE]    \* errors of cancelled tasks are discarded
          \* ... but only of cancelled ones: the owner of a live or finished compilation that is still connected must hear of it
          /\ badreply' = IF truth[i].s \in {"running", "done"} /\ conn[own] = "open" /\ Connected(own)
                         THEN "raised-error-never-reported" ELSE badreply
          /\ UNCHANGED <<replies, waiting, crashed>>
     ELSE IF mb \notin DOMAIN mb2id \/ mb2id[mb] \notin DOMAIN tasks THEN crashed' = TRUE /\ UNCHANGED <<replies, waiting, truth, badreply>>
     ELSE LET c == tasks[mb2id[mb]].c IN
          /\ Reply(c, [k |-> "ERROR", i |-> i]) /\ waiting' = [waiting EXCEPT ![c] = None]
          /\ truth' = [truth EXCEPT ![i].reported = TRUE, ![i].erred = TRUE, ![i].s = IF @ = "running" THEN "failed" ELSE @]
          /\ badreply' = IF truth[i].owner # c THEN "cross-client-leak"
                         ELSE IF truth[i].s = "cancelled" THEN "error-of-cancelled-work-delivered" ELSE badreply
          /\ crashed' = crashed
  /\ UNCHANGED <<sclients, tasks, mboxes, mb2id, ctr, conn>>

\* ---- the client reads a reply (and, as the Compiler does, drops its connection on an error)
Read(c) ==
  /\ replies[c] # <<>> /\ conn[c] = "open"
  /\ replies' = [replies EXCEPT ![c] = Tail(@)]
  /\ IF Head(replies[c]).k = "ERROR"
     THEN \* the Compiler closes its connection; the server then handles the disconnect
          LET d == DropClient(c, sclients, tasks, mboxes, mb2id) IN
          /\ conn' = [conn EXCEPT ![c] = "closed"]
          /\ sclients' = d.sc /\ tasks' = d.tk /\ mboxes' = d.mbx /\ mb2id' = d.m2i
          /\ truth' = [j \in IDS |-> IF j \in d.cancelled /\ truth[j].s \in {"running", "done"} /\ ~truth[j].delivered
                                    THEN [truth[j] EXCEPT !.s = "cancelled"] ELSE truth[j]]
     ELSE UNCHANGED <<conn, sclients, tasks, mboxes, mb2id, truth>>
  /\ waiting' = IF Head(replies[c]).k = "ERROR" THEN [waiting EXCEPT ![c] = None] ELSE waiting
  /\ UNCHANGED <<ctr, crashed, badreply>>

Ask == IDS \cup {"U"}
Proj == [nt |-> Cardinality(DOMAIN tasks'), nmb |-> Cardinality(DOMAIN mboxes'), nm2 |-> Cardinality(DOMAIN mb2id'),
         ncl |-> Cardinality(DOMAIN sclients'), nact |-> [c \in Clients |-> IF c \in DOMAIN sclients' THEN Cardinality(sclients'[c]) ELSE 0 - 1]]
Act(name, c, i) == hist' = IF Record THEN Append(hist, [a |-> name, c |-> c, i |-> i, p |-> Proj]) ELSE hist
Next ==
  \/ \E c \in Clients, i \in IDS : Submit(c, i) /\ Act("Submit", c, i)
  \/ \E c \in Clients, i \in Ask : Request(c, i) /\ Act("Request", c, i)
  \/ \E c \in Clients, i \in Ask : Status(c, i) /\ Act("Status", c, i)
  \/ \E c \in Clients, i \in Ask : Cancel(c, i) /\ Act("Cancel", c, i)
  \/ \E c \in Clients : Disconnect(c) /\ Act("Disconnect", c, "U")
  \/ \E i \in IDS : ResultIn(i) /\ Act("ResultIn", 0, i)
  \/ \E i \in IDS : ErrorIn(i) /\ Act("ErrorIn", 0, i)
  \/ \E c \in Clients : Read(c) /\ Act("Read", c, "U")
Spec == Init /\ [][Next]_vars

\* ---- properties
NoCrash == ~crashed
RepliesConsistent == badreply = "none"
\* table consistency: every mailbox belongs to a registered task; the active set of a client only holds its own registered tasks
TablesConsistent ==
  /\ \A mb \in DOMAIN mboxes : mb \in DOMAIN mb2id /\ mb2id[mb] \in DOMAIN tasks /\ tasks[mb2id[mb]].mb = mb
  /\ \A c \in DOMAIN sclients : \A i \in sclients[c] : i \in DOMAIN tasks /\ tasks[i].c = c
\* no mailbox without a task row (a stored result nobody can ever claim or cancel)
NoOrphanMailbox == \A mb \in DOMAIN mboxes : mb \in DOMAIN mb2id /\ mb2id[mb] \in DOMAIN tasks
\* cancelled compilations leave nothing behind (C12, server side)
NoCancelledResidue == \A i \in IDS : truth[i].s = "cancelled" => /\ i \notin DOMAIN tasks /\ \A c \in DOMAIN sclients : i \notin sclients[c]
                                                                /\ truth[i].mb \notin DOMAIN mboxes /\ truth[i].mb \notin DOMAIN mb2id
\* nothing of a disconnected client stays (its finished-but-unclaimed and its delivered compilations included)
NoResidueOfGoneClient == \A i \in IDS : (truth[i].owner # 0 /\ ~Connected(truth[i].owner)) =>
                            i \notin DOMAIN tasks /\ truth[i].mb \notin DOMAIN mboxes /\ truth[i].mb \notin DOMAIN mb2id
\* a client that is waiting is waiting for a live compilation of its own
WaitingIsLive == \A c \in Clients : (waiting[c] # None /\ conn[c] = "open") => truth[waiting[c]].owner = c /\ truth[waiting[c]].s \in {"running", "done", "failed"}
Dump == IF Record /\ TLCGet("level") >= 6 THEN PrintT(<<"BEHAVIOUR", ToJson(hist)>>) ELSE TRUE
=============================================================================
