SPECIFICATION Spec
CONSTANTS
 Prog <- P_SAB
 Place <- PlaceRemote
 RootFn = "root"
 EnvCancelRoot = FALSE
 MailboxLocked = FALSE
 RegisterIfNotReady = FALSE
 DelayBeforeStart = TRUE
 CancelInPlace = TRUE
 ForgetDiscarded = TRUE
 TolerantCompletion = TRUE
 DropLateBoxes = FALSE
 Record = FALSE
INVARIANT NoErr
CHECK_DEADLOCK FALSE
