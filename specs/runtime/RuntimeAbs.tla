---------------------------- MODULE RuntimeAbs ----------------------------
(* L1 - the property specification of the BQSKit task runtime (C07, C12, C13, C14, C15).

   The most permissive machine over the OBSERVABLE alphabet: what task bodies see (their own
   start, the values their awaits / next() calls return), what clients see (replies to submit,
   status, result, cancel, close), process crashes, which worker each task was forwarded to, the
   bosses' own counters, and a snapshot of every node's tables when the system is idle.
   No internal identifier of the implementation appears here; any implementation that satisfies
   the five statements produces only traces this machine accepts.

   It is a TOTAL VERDICT FUNCTION over fully ordered traces: every event gets a verdict "ok" or
   the name of the violated clause; the first non-ok clause of a trace is printed as
   <<"VERDICT", tid, position, clause>> and the run continues with the next trace.

   Trace record T: [nt, nf, nc, ncl, parent (task -> parent task or 0), tcomp (task -> compilation),
   croot (compilation -> root task), cowner (compilation -> client), flat (BOOLEAN: server manages
   workers directly), ev (sequence of events)].  Every event carries every field (typed defaults).
   Values: every task body returns its own task id. *)
EXTENDS Naturals, Integers, Sequences, FiniteSets, TLC, Json, IOUtils

Traces == JsonDeserialize(IOEnv.TRACE_FILE)
VARIABLES tid, l, st, fut, cst, pend, open, crashed, fwd, awc, rep, due, owe, cseen, late, bad
vars == <<tid, l, st, fut, cst, pend, open, crashed, fwd, awc, rep, due, owe, cseen, late, bad>>
\* st[k]   task status: "none" | "submitted" | "started" | "ended" | "raised"
\* fut[f]  [owner, kids, consumed, cancelled, seen]
\* cst[c]  compilation: [s |-> "absent"|"running"|"cancelled", delivered |-> BOOLEAN, failed |-> BOOLEAN]
\* pend[c] pending call of client c: [call, cid] or [call |-> "none", cid |-> 0]
\* open[c] client connection believed usable
\* fwd[k]  set of workers task k was forwarded to
\* awc[c]  compilation c has a task that awaited a cancelled future (its failure is then legitimate)
\* rep[k]  the worker that ran task k has told its boss that k is finished (RESULT or UPDATE put on its channel)
\* due[k]  task body k raised at a moment when, by this specification's own reckoning over the trace so far, neither k nor an
\*         ancestor was cancelled work, its compilation was not cancelled and its client was connected: the runtime owes that
\*         client the error
\* owe[c]  the due errors of client c that were raised before c last saw the system settle: they are all in c's connection now
\* cseen   set of <<worker, task>>: that worker has received the CANCEL message for that task
\* late[k] task k was handed to its worker (Forward) AFTER that worker had received the CANCEL of k or of an ancestor of k

T == Traces[tid]
E == T.ev[l]
Range(s) == {s[i] : i \in 1..Len(s)}
Tasks == 1..T.nt
Futs == 1..T.nf
Comps == 1..T.nc
Clients == 1..T.ncl
NoCall == [call |-> "none", cid |-> 0]

Init == /\ tid \in 1..Len(Traces) /\ l = 1 /\ bad = "none"
        /\ st = [k \in 1..Traces[tid].nt |-> "none"]
        /\ fut = [f \in 1..Traces[tid].nf |-> [owner |-> 0, kids |-> <<>>, consumed |-> FALSE, cancelled |-> FALSE, seen |-> {}]]
        /\ cst = [c \in 1..Traces[tid].nc |-> [s |-> "absent", delivered |-> FALSE, failed |-> FALSE]]
        /\ pend = [c \in 1..Traces[tid].ncl |-> NoCall]
        /\ open = [c \in 1..Traces[tid].ncl |-> TRUE]
        /\ crashed = FALSE
        /\ fwd = [k \in 1..Traces[tid].nt |-> {}]
        /\ awc = [c \in 1..Traces[tid].nc |-> FALSE]
        /\ rep = [k \in 1..Traces[tid].nt |-> FALSE]
        /\ due = [k \in 1..Traces[tid].nt |-> FALSE]
        /\ owe = [c \in 1..Traces[tid].ncl |-> {}]
        /\ cseen = {}
        /\ late = [k \in 1..Traces[tid].nt |-> FALSE]

RECURSIVE Anc(_)
Anc(k) == IF k = 0 THEN {} ELSE {k} \cup Anc(T.parent[k])
\* "cancelled work": descendants of a cancelled future's children, and every task of a compilation that was
\* cancelled by its client or orphaned by its client's disconnect.
CompCancelled(c) == c \in Comps /\ cst[c].s = "cancelled"
CancelledTask(k) == \/ \E f \in Futs : fut[f].cancelled /\ (Range(fut[f].kids) \cap Anc(k)) # {}
                    \/ CompCancelled(T.tcomp[k])
Val(k) == k
RaisedIn(c) == {k \in Tasks : T.tcomp[k] = c /\ st[k] = "raised"}
RootEnded(c) == st[T.croot[c]] = "ended"
\* a compilation in which a task body raised has failed: its error is on its way to the client, and what is left of it is
\* neither live work nor (until the client reacts) cancelled work
FailedComp(c) == RaisedIn(c) # {}

\* ------------------------------------------------------------------ verdicts
TaskVerdict ==
  CASE E.e = "TaskStart" ->
         IF st[E.t] = "none" THEN "start-of-unsubmitted-task"
         ELSE IF st[E.t] # "submitted" THEN "task-body-ran-twice"
         \* C12, "descendant tasks stop being started".  Cancel is asynchronous, so a descendant may still start for a while - but
         \* not on a worker that had ALREADY RECEIVED the CANCEL when the task was handed to it: messages to a worker are handled
         \* one after the other, so that worker knew of the cancellation before it ever saw the task.
         ELSE IF late[E.t] /\ ~crashed THEN "cancelled-task-started-after-its-worker-saw-the-cancel"
         ELSE "ok"
    [] E.e = "Submit" -> IF st[E.t] # "started" THEN "submit-from-inactive-task" ELSE "ok"
    [] E.e \in {"TaskEnd", "TaskRaise"} -> IF st[E.t] # "started" THEN "end-without-start" ELSE "ok"
    [] E.e = "AwaitCall" -> IF fut[E.f].owner # E.t THEN "await-foreign-future" ELSE "ok"
    [] E.e = "AwaitReturn" ->
         LET f == fut[E.f] IN
         IF f.owner # E.t THEN "await-foreign-future"
         ELSE IF f.cancelled THEN "cancelled-future-delivered"
         ELSE IF f.consumed THEN "future-resolved-twice"
         ELSE IF \E i \in 1..Len(f.kids) : st[f.kids[i]] # "ended" THEN "await-returned-before-children-ended"
         ELSE IF E.v # [i \in 1..Len(f.kids) |-> Val(f.kids[i])] THEN "wrong-or-misordered-value"
         ELSE "ok"
    [] E.e = "NextReturn" ->     \* E.v = sequence of <<slot, value>>; an empty batch is a spurious wake-up the statement does not exclude
         LET f == fut[E.f] IN
         IF f.owner # E.t THEN "await-foreign-future"
         ELSE IF f.cancelled THEN "cancelled-future-delivered"
         ELSE IF \E i \in 1..Len(E.v) : E.v[i][1] + 1 \in f.seen THEN "next-duplicate-result"
         ELSE IF \E i, j \in 1..Len(E.v) : i # j /\ E.v[i][1] = E.v[j][1] THEN "next-duplicate-result"
         ELSE IF \E i \in 1..Len(E.v) : E.v[i][1] + 1 \notin 1..Len(f.kids) THEN "next-foreign-slot"
         ELSE IF \E i \in 1..Len(E.v) : st[f.kids[E.v[i][1] + 1]] # "ended" \/ E.v[i][2] # Val(f.kids[E.v[i][1] + 1])
              THEN "wrong-or-misordered-value"
         ELSE "ok"
    [] E.e = "Cancel" -> IF fut[E.f].owner # E.t THEN "await-foreign-future" ELSE "ok"
    [] E.e = "Forward" ->      \* C15: each submitted task reaches exactly one worker
         IF st[E.t] = "none" THEN "forward-of-unsubmitted-task"
         ELSE IF fwd[E.t] # {} THEN "task-forwarded-twice" ELSE "ok"
    [] E.e = "Report" -> "ok"     \* a worker told its boss that task E.t is finished (bookkeeping ground truth for the idle snapshot)
    [] E.e = "CancelSeen" -> "ok" \* worker E.w received the CANCEL message for task E.t

\* a client reply.  E.kind: "ok" (submit / cancel / close acknowledged) | "status" (E.s = RUNNING/DONE/UNKNOWN)
\* | "result" (E.v = value) | "error" (E.cause: "task" with E.boom = ids whose message is carried, "await-cancelled",
\*   "unknown-task" explicit refusal, "closed" connection dropped without a reply, "other").
ErrorVerdict(c) ==      \* an error reply about compilation c (0 = about no particular compilation)
  IF crashed THEN "ok"                                  \* C14: after a crash every call must fail; any error is right
  ELSE IF E.cause = "task" THEN
         IF E.boom = <<>> \/ \E i \in 1..Len(E.boom) : st[E.boom[i]] # "raised" THEN "error-not-raised-by-any-task-body"
         ELSE IF \E i \in 1..Len(E.boom) : T.cowner[T.tcomp[E.boom[i]]] # E.c THEN "cross-client-leak"
         ELSE "ok"
  ELSE IF E.cause = "await-cancelled" THEN
         IF \E k \in Comps : T.cowner[k] = E.c /\ awc[k] THEN "ok" ELSE "error-not-raised-by-any-task-body"
  ELSE IF E.cause = "unknown-task" THEN
         \* an explicit refusal is a consistent answer only for an id the client cannot ask for any more
         IF c \in Comps /\ T.cowner[c] = E.c /\ cst[c].s = "running" /\ ~cst[c].delivered THEN "live-task-refused" ELSE "ok"
  ELSE IF E.cause = "closed" THEN
         \* the connection was dropped without any reply.  Legitimate if this client's connection had already been closed by
         \* an explicit refusal or an error report, or if the request is one the state machine refuses anyway (the result of an
         \* id that is not a live compilation of this client: the server's documented policy is to drop such a client).
         \* Anything else means the request took the server (or the link) down.
         IF ~open[E.c] THEN "ok"
         ELSE IF E.call = "result" /\ ~(c \in Comps /\ T.cowner[c] = E.c /\ cst[c].s = "running" /\ ~cst[c].delivered) THEN "ok"
         ELSE "request-unanswered"
  ELSE "error-not-raised-by-any-task-body"
LateErrors(c) == {k \in owe[c] : cst[T.tcomp[k]].s = "running"}
ClientVerdict ==
  CASE E.e = "ClientCall" -> IF pend[E.c].call # "none" THEN "harness-overlapping-calls" ELSE "ok"
    [] E.e = "ClientReturn" ->
         IF pend[E.c].call # E.call THEN "harness-unmatched-return"
         ELSE IF E.kind = "error" THEN ErrorVerdict(E.cid)
         \* C13, "an exception raised by any task is reported to the client, never a hang or a silent loss" - weakest sound
         \* reading.  The runtime may drop an error only for work it knows to be cancelled; the CANCEL travels by messages
         \* while this trace is ordered globally, so an error is only DEMANDED when the raise precedes, in the trace, every
         \* event that makes the task cancelled work (due, set at TaskRaise) and the client never cancelled that compilation.
         \* The client learns of errors only inside a request (close() swallows them), so the demand falls on the first
         \* request of that client that is answered after the client saw the system settle (everything in flight has arrived):
         \* it must fail with a task error (which one of several is free: the client drops its connection on the first).
         ELSE IF ~crashed /\ open[E.c] /\ E.call \in {"submit", "status", "result", "cancel"} /\ LateErrors(E.c) # {}
              THEN "raised-error-never-reported"
         ELSE IF crashed /\ E.kind # "result" /\ E.call # "close" THEN "ok"    \* replies that were already in flight
         ELSE IF E.call = "submit" THEN (IF E.kind = "ok" THEN "ok" ELSE "bad-reply-kind")
         ELSE IF E.call = "close" THEN "ok"
         ELSE IF E.call = "cancel" THEN (IF E.kind = "ok" THEN "ok" ELSE "bad-reply-kind")
         ELSE IF E.call = "status" THEN
              IF E.kind # "status" THEN "bad-reply-kind"
              ELSE IF E.cid \notin Comps THEN (IF E.s = "UNKNOWN" THEN "ok" ELSE "status-inconsistent")
              ELSE IF T.cowner[E.cid] # E.c THEN (IF E.s = "UNKNOWN" THEN "ok" ELSE "cross-client-leak")
              ELSE IF E.s = "DONE" /\ ~RootEnded(E.cid) THEN "status-inconsistent"
              ELSE IF E.s = "RUNNING" /\ (cst[E.cid].delivered \/ cst[E.cid].s # "running") THEN "status-inconsistent"
              ELSE IF E.s = "UNKNOWN" /\ cst[E.cid].s = "running" /\ ~cst[E.cid].delivered THEN "status-inconsistent"
              ELSE "ok"
         ELSE IF E.call = "result" THEN
              IF E.kind # "result" THEN "bad-reply-kind"
              ELSE IF E.cid \notin Comps THEN "client-got-foreign-result"
              ELSE IF T.cowner[E.cid] # E.c THEN "cross-client-leak"
              ELSE IF cst[E.cid].s = "cancelled" THEN "cancelled-result-delivered"
              ELSE IF cst[E.cid].delivered THEN "result-delivered-twice"
              ELSE IF ~RootEnded(E.cid) THEN (IF crashed THEN "result-after-crash-incomplete" ELSE "client-result-before-root-ended")
              ELSE IF E.v # Val(T.croot[E.cid]) THEN "client-got-foreign-result"
              ELSE "ok"
         ELSE "unknown-call"
    [] E.e = "Probe" ->       \* a fresh client tried submit + result after the scripts (detached servers only)
         IF E.ok \/ crashed THEN "ok" ELSE "server-dead-after-request"

\* bosses' own bookkeeping (C15): E.node, E.total, E.idle, E.emps = sequence of <<numTasks, numIdle, totalWorkers>>
BossVerdict ==
  IF E.idle < 0 \/ E.idle > E.total THEN "counter-out-of-bounds:idle-workers"
  ELSE IF \E i \in 1..Len(E.emps) : E.emps[i][1] < 0 THEN "counter-out-of-bounds:employee-tasks"
  ELSE IF \E i \in 1..Len(E.emps) : E.emps[i][2] < 0 \/ E.emps[i][2] > E.emps[i][3] THEN "counter-out-of-bounds:employee-idle"
  ELSE "ok"

\* idle snapshot: E.blocked = clients with a call that never returned; E.alive = runtime nodes still running;
\* E.residue = sequence of [tab, kind ("task"|"future"|"comp"|"client"|"orphan"), id] - EVERY entry of every table of every node;
\* E.srv = <<total, idle, sum of employee task counts>> of the top server (or <<0,0,0>> when it is gone), E.emps = its employees'
\* <<task count, idle count, workers>>; E.final = this is the last snapshot of the run; E.how = "livelock" when the run did not
\* fall idle within its step bound (then the snapshot only says who is blocked and which nodes are still running)
ResidueCancelled(r) ==
  CASE r.kind = "task" -> r.id \in Tasks /\ CancelledTask(r.id)
    [] r.kind = "future" -> r.id \in Futs /\ (fut[r.id].cancelled \/ (fut[r.id].owner # 0 /\ CancelledTask(fut[r.id].owner)))
    \* a server row of a compilation: residue when the compilation is cancelled work or its client has disconnected (rows of
    \* delivered results are kept on purpose only while their client is connected)
    [] r.kind = "comp" -> r.id \in Comps /\ (CompCancelled(r.id) \/ ~open[T.cowner[r.id]])
    [] r.kind = "client" -> r.id \in Clients /\ ~open[r.id]          \* the server's entry for a connection that is gone
    [] r.kind = "orphan" -> TRUE                                     \* an entry that belongs to no compilation at all
    [] OTHER -> FALSE
ResidueLive(r) ==     \* an unfinished, un-cancelled piece of work still sitting in a table although the system is idle
  CASE r.kind = "task" -> r.id \in Tasks /\ ~CancelledTask(r.id) /\ st[r.id] \in {"submitted", "started"} /\ ~FailedComp(T.tcomp[r.id])
    [] OTHER -> FALSE
QuiescentVerdict ==
  IF E.blocked # <<>> THEN (IF crashed THEN "client-waits-forever-after-crash" ELSE "client-waits-forever")
  ELSE IF crashed /\ (E.final \/ E.how = "livelock") /\ E.alive # <<>> THEN "runtime-alive-after-crash"
  ELSE IF E.how = "livelock" THEN "no-progress-within-step-bound"     \* nobody is blocked, yet the runtime keeps stepping for ever
  ELSE IF crashed THEN "ok"
  ELSE IF \E i \in 1..Len(E.residue) : ResidueLive(E.residue[i]) THEN "live-task-never-finished"
  ELSE IF \E k \in Tasks : st[k] = "submitted" /\ ~CancelledTask(k) /\ ~FailedComp(T.tcomp[k]) /\ E.settled THEN "live-task-never-started"
  ELSE IF \E i \in 1..Len(E.residue) : ResidueCancelled(E.residue[i])
       THEN LET S == {j \in 1..Len(E.residue) : ResidueCancelled(E.residue[j])}
                i0 == CHOOSE i \in S : \A j \in S : i <= j
                r == E.residue[i0]
                \* which kind of left-over: a task by how far it got, a mailbox by whether its owner is itself cancelled work
                how == CASE r.kind = "task" -> st[r.id]
                         [] r.kind = "future" -> IF fut[r.id].owner # 0 /\ CancelledTask(fut[r.id].owner) THEN "owner-cancelled" ELSE "owner-live"
                         [] r.kind = "client" -> "connection"
                         [] r.kind = "orphan" -> "orphan"
                         [] OTHER -> "compilation"
            IN "residue-of-cancelled-work:" \o r.tab \o ":" \o how
  ELSE "ok"

\* C15, "when the system falls idle a server that manages its workers directly believes all of them idle with zero outstanding
\* tasks".  These verdicts are SOFT: they are printed and the trace goes on (they say nothing about the events that follow).
\*   idle-workers  the idle count equals the number of workers (no known defect touches this: it must hold with cancellations too)
\*   task-count    the per-worker task counts are zero.  The recorded finding (workers drop cancelled tasks without telling their
\*                 boss) explains a count that is left over for tasks the worker was given (Forward), never reported as finished
\*                 (Report) and that are cancelled work / belong to a failed compilation: "explained".  Anything beyond that -
\*                 a count kept for a task whose completion WAS reported - is "unexplained".
Unreported(w) == {k \in Tasks : fwd[k] = {w} /\ ~rep[k]}
Excusable(k) == CancelledTask(k) \/ FailedComp(T.tcomp[k]) \/ awc[T.tcomp[k]]
IdleBeliefApplies == E.e = "Quiescent" /\ ~crashed /\ E.blocked = <<>> /\ E.how # "livelock" /\ T.flat /\ E.settled /\ E.srv[1] > 0
SoftVerdicts ==
  IF ~IdleBeliefApplies THEN {}
  ELSE (IF E.srv[2] # E.srv[1] THEN {"idle-belief-at-quiescence:idle-workers"} ELSE {})
       \cup (IF \E i \in 1..Len(E.emps) : E.emps[i][1] > Cardinality({k \in Unreported(i - 1) : Excusable(k)})
             THEN {"idle-belief-at-quiescence:task-count:unexplained"}
             ELSE IF E.srv[3] # 0 THEN {"idle-belief-at-quiescence:task-count:explained"} ELSE {})

Verdict ==
  CASE E.e \in {"TaskStart", "Submit", "TaskEnd", "TaskRaise", "AwaitCall", "AwaitReturn", "NextReturn", "Cancel", "Forward", "Report", "CancelSeen"} -> TaskVerdict
    [] E.e \in {"ClientCall", "ClientReturn", "Probe"} -> ClientVerdict
    [] E.e = "BossState" -> BossVerdict
    [] E.e \in {"Crash", "NodeExit", "Settle"} -> "ok"      \* (NodeExit: a runtime process ended; judged against Shutdown.tla, not here)
    [] E.e = "Quiescent" -> QuiescentVerdict
    [] OTHER -> "unknown-event"

\* ------------------------------------------------------------------ effects
Apply ==
  /\ st' = CASE E.e = "TaskStart" -> [st EXCEPT ![E.t] = "started"]
             [] E.e = "TaskEnd" -> [st EXCEPT ![E.t] = "ended"]
             [] E.e = "TaskRaise" -> [st EXCEPT ![E.t] = "raised"]
             [] E.e = "Submit" -> [k \in Tasks |-> IF k \in Range(E.kids) THEN "submitted" ELSE st[k]]
             [] E.e = "ClientCall" /\ E.call = "submit" -> [st EXCEPT ![T.croot[E.cid]] = "submitted"]
             [] OTHER -> st
  /\ fut' = CASE E.e = "Submit" -> [fut EXCEPT ![E.f] = [owner |-> E.t, kids |-> E.kids, consumed |-> FALSE, cancelled |-> FALSE, seen |-> {}]]
              [] E.e = "AwaitReturn" -> [fut EXCEPT ![E.f].consumed = TRUE]
              [] E.e = "NextReturn" -> [fut EXCEPT ![E.f].seen = @ \cup {E.v[i][1] + 1 : i \in 1..Len(E.v)}]
              [] E.e = "Cancel" -> [fut EXCEPT ![E.f].cancelled = TRUE]
              [] E.e = "TaskEnd" ->   \* futures a task that RETURNS still owns unconsumed are cancelled by the runtime (a raise fails the whole compilation instead)
                   [f \in Futs |-> IF fut[f].owner = E.t /\ ~fut[f].consumed THEN [fut[f] EXCEPT !.cancelled = TRUE] ELSE fut[f]]
              [] OTHER -> fut
  /\ awc' = IF E.e = "AwaitCall" /\ fut[E.f].cancelled THEN [awc EXCEPT ![T.tcomp[E.t]] = TRUE] ELSE awc
  /\ fwd' = IF E.e = "Forward" THEN [fwd EXCEPT ![E.t] = @ \cup {E.w}] ELSE fwd
  /\ rep' = IF E.e = "Report" /\ E.t \in Tasks THEN [rep EXCEPT ![E.t] = TRUE] ELSE rep
  /\ cseen' = IF E.e = "CancelSeen" /\ E.t \in Tasks THEN cseen \cup {<<E.w, E.t>>} ELSE cseen
  /\ late' = IF E.e = "Forward" /\ (\E a \in Anc(E.t) : <<E.w, a>> \in cseen) THEN [late EXCEPT ![E.t] = TRUE] ELSE late
  /\ due' = IF E.e = "TaskRaise" /\ ~crashed /\ ~CancelledTask(E.t) /\ open[T.cowner[T.tcomp[E.t]]]
            THEN [due EXCEPT ![E.t] = TRUE] ELSE due
  /\ owe' = CASE E.e = "Settle" -> [owe EXCEPT ![E.c] = {k \in Tasks : due[k] /\ T.cowner[T.tcomp[k]] = E.c}]
               [] E.e = "ClientReturn" -> [owe EXCEPT ![E.c] = {}]
               [] OTHER -> owe
  /\ pend' = CASE E.e = "ClientCall" -> [pend EXCEPT ![E.c] = [call |-> E.call, cid |-> E.cid]]
               [] E.e = "ClientReturn" -> [pend EXCEPT ![E.c] = NoCall]
               [] OTHER -> pend
  /\ open' = IF E.e = "ClientReturn" /\ (E.kind = "error" \/ E.call = "close") THEN [open EXCEPT ![E.c] = FALSE] ELSE open
  /\ cst' = CASE E.e = "ClientCall" /\ E.call = "submit" -> [cst EXCEPT ![E.cid].s = "running"]
              \* cancel takes effect when it is ISSUED (a result already in flight may or may not arrive - both accepted above
              \* only if it arrives before the call; afterwards it must not)
              [] E.e = "ClientCall" /\ E.call = "cancel" /\ E.cid \in Comps /\ T.cowner[E.cid] = E.c /\ ~cst[E.cid].delivered
                   -> [cst EXCEPT ![E.cid].s = "cancelled"]      \* (cancelling a compilation whose result was already delivered changes nothing)
              [] E.e = "ClientReturn" /\ E.call = "result" /\ E.kind = "result" /\ E.cid \in Comps -> [cst EXCEPT ![E.cid].delivered = TRUE]
              [] E.e = "ClientReturn" /\ E.kind = "error" ->
                   \* the client's connection is gone: its unfinished compilations are orphaned (= cancelled work)
                   [c \in Comps |-> IF T.cowner[c] = E.c /\ cst[c].s = "running" /\ ~cst[c].delivered
                                    THEN [cst[c] EXCEPT !.s = "cancelled", !.failed = TRUE] ELSE cst[c]]
              [] E.e = "ClientCall" /\ E.call = "close" ->
                   [c \in Comps |-> IF T.cowner[c] = E.c /\ cst[c].s = "running" /\ ~cst[c].delivered
                                    THEN [cst[c] EXCEPT !.s = "cancelled"] ELSE cst[c]]
              [] OTHER -> cst
  /\ crashed' = (crashed \/ E.e = "Crash")

Step ==
  /\ bad = "none" /\ l <= Len(T.ev)
  /\ \A s \in SoftVerdicts : PrintT(<<"VERDICT", tid, l, s>>)
  /\ LET v == Verdict IN
     IF v = "ok" THEN Apply /\ l' = l + 1 /\ bad' = bad
     ELSE /\ bad' = v /\ PrintT(<<"VERDICT", tid, l, v>>) /\ UNCHANGED <<l, st, fut, cst, pend, open, crashed, fwd, awc, rep, due, owe, cseen, late>>
  /\ tid' = tid
Spec == Init /\ [][Step]_vars
=============================================================================
