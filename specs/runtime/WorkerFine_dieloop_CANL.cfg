SPECIFICATION Spec
CONSTANTS
 Prog <- P_CANL
 Place <- PlaceLocal
 RootFn = "root"
 EnvCancelRoot = FALSE
 MailboxLocked = TRUE
 RegisterIfNotReady = TRUE
 DelayBeforeStart = TRUE
 CancelInPlace = TRUE
 ForgetDiscarded = TRUE
 TolerantCompletion = FALSE
 DropLateBoxes = FALSE
 Record = FALSE
INVARIANT NoErr
CHECK_DEADLOCK FALSE
