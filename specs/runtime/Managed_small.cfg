SPECIFICATION Spec
CONSTANTS NM = 2
 NW = 1
 K1 = 2
 K2 = 1
INVARIANT NoError
INVARIANT ServerCountersInBounds
INVARIANT ManagerCountersInBounds
INVARIANT PlacedOnce
INVARIANT Completes
CHECK_DEADLOCK FALSE
