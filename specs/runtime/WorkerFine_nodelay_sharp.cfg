SPECIFICATION Spec
CONSTANTS
 Prog <- P_MA
 Place <- PlaceLocal
 RootFn = "root"
 EnvCancelRoot = FALSE
 MailboxLocked = TRUE
 RegisterIfNotReady = TRUE
 DelayBeforeStart = FALSE
 CancelInPlace = TRUE
 ForgetDiscarded = TRUE
 TolerantCompletion = TRUE
 DropLateBoxes = FALSE
 Record = FALSE
INVARIANT WaitingOK
CHECK_DEADLOCK FALSE
