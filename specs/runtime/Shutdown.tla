------------------------------ MODULE Shutdown ------------------------------
(* L2 - death of a worker or manager and the shutdown cascade it must trigger (C14).

   Topology: one server; either it manages NW workers directly (NM = 0, attached / flat) or NM managers with
   NW workers each; NCL clients, each possibly blocked in a call.  Every edge boss-employee and server-client is
   a connection; a dead or exited process has all its connections closed.

   Actions follow the code after the fixes of round 1 (only the MAIN thread of a server/manager reacts to a
   lost connection; the outgoing thread merely drops messages for vanished peers):
     Crash(n)            a worker or manager process dies (the fault)
     BossNoticesLoss(b)  ServerBase.run reads EOF from an employee's connection -> handle_disconnect -> handle_shutdown:
                         SHUTDOWN to every employee, wait for the workers it spawned, close everything; a manager also
                         tells its boss (SHUTDOWN upstream) and closes that connection; a server closes its clients
     BossGetsShutdown(b) SHUTDOWN from above (manager) or from below (server): same handle_shutdown
     WorkerStops(w)      a worker receives SHUTDOWN or loses its connection: it kills its own process
     ClientReleased(c)   a client blocked in (or later entering) a call finds its connection closed: the call raises
   Properties:  Released  == eventually-always no client is blocked and no runtime process is left (under weak
   fairness of every non-fault action) once any crash has happened;  Orderly == a worker never outlives... (safety
   invariants below).  TLC checks them for flat and managed configurations with one or two crashes. *)
EXTENDS Naturals, FiniteSets, Sequences, TLC

CONSTANTS NM,        \* number of managers (0 = server manages workers directly)
          NW,        \* workers per boss
          NCL,       \* clients
          MaxCrash   \* at most this many crashes

\* nodes are numbers: the server is 0, manager m is m (1..NM), worker i of boss b is 100*(b+1) + i
Srv == 0
Managers == 1..NM
Bosses == {Srv} \cup Managers
WorkersOf(b) == IF NM = 0 THEN (IF b = Srv THEN {100 + i : i \in 1..NW} ELSE {})
                ELSE (IF b = Srv THEN {} ELSE {100 * (b + 1) + i : i \in 1..NW})
Workers == UNION {WorkersOf(b) : b \in Bosses}
EmployeesOf(b) == IF b = Srv /\ NM > 0 THEN Managers ELSE WorkersOf(b)
BossOf(e) == IF e \in Managers THEN Srv ELSE (e \div 100) - 1
Clients == 1..NCL
Nodes == Bosses \cup Workers
Faultable == Workers \cup Managers

VARIABLES up,        \* node -> process is running
          told,      \* node -> a SHUTDOWN message is waiting in its inbox (from its boss, or - for the server - from below)
          crashes,   \* number of crashes so far
          blocked,   \* client -> blocked in a call
          copen,     \* client -> its connection is still open on the server side
          everCrashed
vars == <<up, told, crashes, blocked, copen, everCrashed>>

Init == /\ up = [n \in Nodes |-> TRUE] /\ told = [n \in Nodes |-> FALSE] /\ crashes = 0
        /\ blocked \in [Clients -> BOOLEAN] /\ copen = [c \in Clients |-> TRUE] /\ everCrashed = FALSE

Crash(n) == /\ crashes < MaxCrash /\ up[n] /\ n \in Faultable
            /\ up' = [up EXCEPT ![n] = FALSE] /\ crashes' = crashes + 1 /\ everCrashed' = TRUE
            /\ UNCHANGED <<told, blocked, copen>>

\* handle_shutdown of boss b: employees are told (and, being daemon children it joins, a spawned worker is gone when
\* it returns - modelled by the workers stopping on their own, fairly); the boss itself exits
ShutDown(b) ==
  /\ up' = [up EXCEPT ![b] = FALSE]
  /\ told' = [n \in Nodes |-> IF n \in EmployeesOf(b) /\ up[n] THEN TRUE
                              ELSE IF b # Srv /\ n = Srv /\ up[Srv] THEN TRUE     \* a manager forwards SHUTDOWN upstream
                              ELSE told[n]]
  /\ copen' = IF b = Srv THEN [c \in Clients |-> FALSE] ELSE copen

BossNoticesLoss(b) ==
  /\ up[b] /\ \E e \in EmployeesOf(b) : ~up[e]
  /\ ShutDown(b) /\ UNCHANGED <<crashes, blocked, everCrashed>>

BossGetsShutdown(b) ==
  /\ up[b] /\ told[b]
  /\ ShutDown(b) /\ UNCHANGED <<crashes, blocked, everCrashed>>

WorkerStops(w) ==
  /\ w \in Workers /\ up[w] /\ (told[w] \/ ~up[BossOf(w)])
  /\ up' = [up EXCEPT ![w] = FALSE] /\ UNCHANGED <<told, crashes, blocked, copen, everCrashed>>

\* a manager whose boss is gone: the code only unregisters the upstream connection (handle_disconnect of a non-employee)
\* and keeps running - it stops when one of ITS workers is lost or when told.  Modelled faithfully: no action here.

ClientReleased(c) ==
  /\ blocked[c] /\ ~copen[c]
  /\ blocked' = [blocked EXCEPT ![c] = FALSE] /\ UNCHANGED <<up, told, crashes, copen, everCrashed>>
ClientCalls(c) ==      \* a client may enter a new call at any time; on a closed connection it fails at once
  /\ ~blocked[c] /\ copen[c] /\ up[Srv]
  /\ blocked' = [blocked EXCEPT ![c] = TRUE] /\ UNCHANGED <<up, told, crashes, copen, everCrashed>>
ClientAnswered(c) ==   \* normal completion of a call while the runtime is intact
  /\ blocked[c] /\ copen[c] /\ up[Srv] /\ ~everCrashed
  /\ blocked' = [blocked EXCEPT ![c] = FALSE] /\ UNCHANGED <<up, told, crashes, copen, everCrashed>>

Repair == \E b \in Bosses : BossNoticesLoss(b) \/ BossGetsShutdown(b)
Next == \/ \E n \in Nodes : Crash(n)
        \/ Repair
        \/ \E w \in Workers : WorkerStops(w)
        \/ \E c \in Clients : ClientReleased(c) \/ ClientCalls(c) \/ ClientAnswered(c)
Fair == /\ \A b \in Bosses : WF_vars(BossNoticesLoss(b)) /\ WF_vars(BossGetsShutdown(b))
        /\ \A w \in Workers : WF_vars(WorkerStops(w))
        /\ \A c \in Clients : WF_vars(ClientReleased(c))
Spec == Init /\ [][Next]_vars /\ Fair

\* ---- properties
AllDown == \A n \in Nodes : ~up[n]
NoneBlocked == \A c \in Clients : ~blocked[c]
\* C14: after a crash every blocked client is released and the whole runtime stops
Released == everCrashed ~> [](AllDown /\ NoneBlocked)
\* safety: the server closes its clients only when it goes down; a worker whose boss is up and that was not told keeps running
ClientsClosedOnlyWithServer == \A c \in Clients : ~copen[c] => ~up[Srv]
NoSpontaneousStop == \A w \in Workers : (~up[w] /\ crashes = 0) => (told[w] \/ ~up[BossOf(w)])
=============================================================================
